"""pytest plugin: run the repository's own tests with one property's passive monitors attached.

    pytest -p pfv.pytest_plugin --pfv-prop C12 ...   (PFV_DUMP_DIR names the directory for the per-process dumps)

Every test becomes one more scenario for the oracles; a monitor firing there is a witness to read, never something to
silence.  Test outcomes themselves are irrelevant here (they are the baseline's business).
"""
import importlib
import json
import os

import pytest


def pytest_addoption(parser):
    parser.addoption("--pfv-prop", action="store", default=None)
    parser.addoption("--pfv-seed", action="store", default="0")


def pytest_configure(config):
    pid = config.getoption("--pfv-prop")
    if not pid:
        return
    from pfv import boot, core  # noqa: F401

    mod = importlib.import_module("pfv.props." + pid.lower())
    ctx = core.Ctx(pid.upper(), "thorough", int(config.getoption("--pfv-seed")))
    mod.setup(ctx)
    config._pfv = (ctx, mod)


@pytest.hookimpl(hookwrapper=True)
def pytest_runtest_call(item):
    pfv = getattr(item.config, "_pfv", None)
    if pfv is None:
        yield
        return
    ctx, _ = pfv
    ctx.current = ("pytest", item.nodeid)
    outcome = yield
    ctx.current = None
    exc = outcome.excinfo
    if exc is not None:
        from pfv.core import HarnessError

        if isinstance(exc[1], HarnessError):
            ctx.errors.append({"driver": "pytest", "case": item.nodeid, "error": repr(exc[1]), "tb": ""})


def pytest_sessionfinish(session, exitstatus):
    pfv = getattr(session.config, "_pfv", None)
    if pfv is None:
        return
    ctx, mod = pfv
    d = os.environ.get("PFV_DUMP_DIR")
    if not d:
        return
    os.makedirs(d, exist_ok=True)
    out = ctx.dump()
    out["reach"] = {}
    out["tree"] = {}
    out["meta"] = {}
    with open(os.path.join(d, f"pytest-{os.getpid()}.json"), "w") as f:
        json.dump(out, f)
