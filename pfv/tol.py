"""Tolerance helpers: forward error bounds in units of eps(dtype), ulp distances."""
import math

import torch


def eps(dtype):
    return float(torch.finfo(dtype).eps)


def ulp_diff(a, b):
    """Max distance between two same-dtype float tensors in units in the last place (inf if NaN mismatch)."""
    if a.shape != b.shape or a.dtype != b.dtype:
        return math.inf
    nan_a, nan_b = torch.isnan(a), torch.isnan(b)
    if not torch.equal(nan_a, nan_b):
        return math.inf
    a = torch.where(nan_a, torch.zeros_like(a), a)
    b = torch.where(nan_b, torch.zeros_like(b), b)
    if a.numel() == 0:
        return 0.0
    inf_a, inf_b = torch.isinf(a), torch.isinf(b)
    if not torch.equal(inf_a, inf_b) or not torch.equal(a[inf_a], b[inf_b]):
        return math.inf
    a = a[~inf_a]
    b = b[~inf_b]
    if a.numel() == 0:
        return 0.0
    e, tiny = eps(a.dtype), float(torch.finfo(a.dtype).tiny)
    a64, b64 = a.to(torch.float64), b.to(torch.float64)
    scale = torch.maximum(a64.abs(), b64.abs()).clamp(min=tiny)
    # spacing of floats near |x| is between eps/2*|x| and eps*|x|
    diff = (a64 - b64).abs()
    d = torch.where(diff == 0, torch.zeros_like(diff), diff / (scale * (e / 2)).clamp(min=5e-324))
    return d.max().item()


def bit_equal(a, b):
    if a.shape != b.shape or a.dtype != b.dtype:
        return False
    if a.dtype.is_floating_point:
        na, nb = torch.isnan(a), torch.isnan(b)
        if not torch.equal(na, nb):
            return False
        return torch.equal(torch.where(na, torch.zeros_like(a), a), torch.where(nb, torch.zeros_like(b), b))
    return torch.equal(a, b)


def close(a, b, rel, abs_):
    """|a-b| <= rel*max(|a|,|b|)+abs elementwise; returns (ok, worst_index, worst_excess)."""
    a64, b64 = a.to(torch.float64), b.to(torch.float64)
    if a64.shape != b64.shape:
        try:
            a64, b64 = torch.broadcast_tensors(a64, b64)
        except RuntimeError:
            return False, None, math.inf
    bad_nan = torch.isnan(a64) != torch.isnan(b64)
    diff = (a64 - b64).abs()
    bound = rel * torch.maximum(a64.abs(), b64.abs()) + abs_
    same_inf = torch.isinf(a64) & torch.isinf(b64) & (a64 == b64)
    excess = torch.where(same_inf | (torch.isnan(a64) & torch.isnan(b64)), torch.zeros_like(diff), diff - bound)
    excess = torch.where(bad_nan, torch.full_like(excess, math.inf), excess)
    excess = torch.where(torch.isnan(excess), torch.full_like(excess, math.inf), excess)
    if excess.numel() == 0:
        return True, None, 0.0
    w = int(excess.flatten().argmax())
    ex = float(excess.flatten()[w])
    return ex <= 0, w, ex
