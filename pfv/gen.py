"""Seeded generators of tensors / shapes / magnitudes with edge pools (numpy Generator in, torch out)."""
from fractions import Fraction

import numpy as np
import torch

F32, F64 = torch.float32, torch.float64


def pick(rng, seq):
    return seq[int(rng.integers(len(seq)))]


def dtype_of(rng, p64=0.6):
    return F64 if rng.random() < p64 else F32


def eps(dtype):
    return float(torch.finfo(dtype).eps)


def tiny(dtype):
    return float(torch.finfo(dtype).tiny)


def t(x, dtype=F64):
    """Tensor holding x.  About a third of the non-scalar ones are equal-valued views with another memory layout (see relayout); which ones is a
    function of the values alone, so a replayed case sees the same layouts."""
    a = np.asarray(x, dtype=np.float64)
    out = torch.as_tensor(a).to(dtype)
    if a.ndim == 0 or a.size < 2:
        return out
    h = float(np.nansum(np.abs(a[np.isfinite(a)]))) if np.isfinite(a).any() else 0.0
    return relayout(out, int((h * 1e6) % 10) if h < 1e12 else 9)


STYLES = ["gauss", "gauss", "lognormal", "ties", "heavy", "const", "twopoint", "sorted", "reversed", "uniform"]


def sample(rng, shape, dtype=F64, style=None, scale=1.0, loc=0.0):
    """Real-valued sample tensor of the given style. Returns tensor (values exactly representable)."""
    style = style or pick(rng, STYLES)
    shape = tuple(shape)
    if style == "gauss":
        a = rng.standard_normal(shape)
    elif style == "lognormal":
        a = np.exp(rng.standard_normal(shape) * 0.5) - 1.0
    elif style == "ties":
        a = np.round(rng.standard_normal(shape) * 2) / 2
    elif style == "heavy":
        a = rng.standard_t(2, shape)
    elif style == "const":
        a = np.full(shape, rng.standard_normal())
    elif style == "twopoint":
        a = np.where(rng.random(shape) < 0.3, -1.0, 0.5)
    elif style == "sorted":
        a = np.sort(rng.standard_normal(shape), axis=0)
    elif style == "reversed":
        a = -np.sort(rng.standard_normal(shape), axis=0)
    elif style == "uniform":
        a = rng.random(shape) * 2 - 1
    else:
        raise ValueError(style)
    out = torch.as_tensor(np.asarray(a * scale + loc, dtype=np.float64)).to(dtype)
    # memory layout is not part of any property: a share of the samples are equal-valued views (strided slice of a larger tensor, transposed storage,
    # storage offset), decided from the generator's state without advancing it (case values stay what they were)
    mode = int(rng.bit_generator.state["state"]["state"] % 10)
    return relayout(out, mode), style


def relayout(x, mode):
    """An equal-valued tensor with another memory layout (modes 0..2; anything else returns x itself)."""
    if x.dim() == 0 or x.numel() == 0:
        return x
    if mode == 0:
        big = x.new_zeros(tuple(x.shape[:-1]) + (2 * x.shape[-1],))
        big[..., ::2] = x
        return big[..., ::2]
    if mode == 1 and x.dim() >= 2:
        return x.transpose(0, -1).contiguous().transpose(0, -1)
    if mode == 2:
        big = x.new_zeros(x.numel() + 3)
        big[3:] = x.reshape(-1)
        return big[3:].view(x.shape)
    return x


def magnitude(rng, lo=-6, hi=6):
    return float(10.0 ** rng.uniform(lo, hi))


def frac(x):
    """Exact rational value of a python float / 0-dim tensor."""
    if isinstance(x, torch.Tensor):
        x = x.item()
    return Fraction(x)


def fr_list(tensor):
    """Nested lists of Fractions holding the exact values of a float tensor."""
    def conv(v):
        if isinstance(v, list):
            return [conv(u) for u in v]
        return Fraction(v)

    return conv(tensor.detach().to(torch.float64).tolist() if tensor.dtype != F64 else tensor.detach().tolist())


def price_paths(rng, n, T, dtype=F64, vol=None, s0=None, ties=False):
    """Positive price paths (n, T): geometric random walk; optional rounding to a grid (ties)."""
    vol = vol if vol is not None else float(10 ** rng.uniform(-2.5, -0.3))
    s0 = s0 if s0 is not None else float(np.exp(rng.uniform(-1, 1)))
    z = rng.standard_normal((n, T)) * vol
    z[:, 0] = 0.0
    a = s0 * np.exp(np.cumsum(z, axis=1))
    if ties:
        a = np.maximum(np.round(a * 8) / 8, 0.125)
    return t(a, dtype)
