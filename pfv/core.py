"""Run context, verdict discipline, evidence, known findings, replay.

Every property module exposes ``DRIVERS`` (list of ``(name, n_quick, n_thorough, fn)``) where
``fn(ctx, k, rng)`` runs *one* case.  Cases are addressed by ``(driver, k)`` and derive all
randomness from ``(VERIF_SEED, property, driver, k)``; a replay file stores exactly that address
(plus the inputs written out for the reader), so ``bin/check <ID> --replay FILE`` re-executes the
same case against the current tree.
"""
import collections
import hashlib
import json
import math
import os
import sys
import time
import traceback

ROOT = os.path.dirname(os.path.dirname(os.path.abspath(__file__)))
KNOWN_FILE = os.path.join(ROOT, "KNOWN_FINDINGS.txt")


def _h(*parts):
    s = "\x1f".join(str(p) for p in parts)
    return int.from_bytes(hashlib.sha256(s.encode()).digest()[:8], "big")


def jsonable(x, depth=0):
    """Best-effort conversion of harness objects to JSON (tensors -> nested lists + dtype)."""
    try:
        import torch
    except Exception:  # pragma: no cover
        torch = None
    if x is None or isinstance(x, (bool, int, str)):
        return x
    if isinstance(x, float):
        if math.isnan(x):
            return "nan"
        if math.isinf(x):
            return "inf" if x > 0 else "-inf"
        return x
    if torch is not None and isinstance(x, torch.Tensor):
        t = x.detach().cpu()
        if t.numel() > 400:
            return {
                "tensor": "omitted",
                "shape": list(t.shape),
                "dtype": str(t.dtype),
                "head": jsonable(t.flatten()[:16].to(torch.float64).tolist()),
            }
        v = t.to(torch.float64).tolist() if t.dtype.is_floating_point else t.tolist()
        return {"dtype": str(t.dtype), "shape": list(t.shape), "v": jsonable(v)}
    if torch is not None and isinstance(x, (torch.dtype, torch.device)):
        return str(x)
    if isinstance(x, dict):
        return {str(k): jsonable(v, depth + 1) for k, v in x.items()}
    if isinstance(x, (list, tuple)):
        return [jsonable(v, depth + 1) for v in x]
    try:
        import numpy as np

        if isinstance(x, np.generic):
            return jsonable(x.item())
        if isinstance(x, np.ndarray):
            return jsonable(x.tolist())
    except Exception:
        pass
    from fractions import Fraction

    if isinstance(x, Fraction):
        return float(x)
    return repr(x)[:300]


class HarnessError(Exception):
    pass


class Ctx:
    def __init__(self, pid, tier, seed, shard=0, nshards=1, only=None):
        self.pid = pid
        self.tier = tier
        self.seed = int(seed)
        self.shard = shard
        self.nshards = nshards
        self.only = only  # (driver, k) for replay
        self.mon = collections.defaultdict(lambda: collections.Counter())
        self.sigs = set()
        self.trivial = 0
        self.evaluations = 0
        self.samples = []
        self.violations = []
        self.errors = []
        self.notes = collections.Counter()
        self.branches = collections.Counter()
        self.current = None
        self.extra = {}
        self.t0 = time.time()

    # ---- randomness -------------------------------------------------------------------------
    def rng(self, *key):
        import numpy as np

        return np.random.default_rng(_h(self.seed, self.pid, *key))

    def torch_seed(self, *key):
        import torch

        s = _h(self.seed, self.pid, "torch", *key) % (2**31 - 1)
        torch.manual_seed(s)
        return s

    @property
    def thorough(self):
        return self.tier == "thorough"

    # ---- bookkeeping ------------------------------------------------------------------------
    def seen(self, monitor, n=1):
        self.mon[monitor]["seen"] += n

    def ood(self, monitor, n=1):
        self.mon[monitor]["out_of_domain"] += n

    def unsupported(self, monitor, n=1):
        self.mon[monitor]["unsupported"] += n

    def skipped(self, monitor, why, n=1):
        self.mon[monitor]["skipped:" + why] += n

    def branch(self, name, n=1):
        self.branches[name] += n

    def note(self, name, n=1):
        self.notes[name] += n

    def sample(self, obj, cap=8):
        if len(self.samples) < cap:
            self.samples.append(jsonable(obj))

    def ok(self, monitor, sig=None, trivial=False, n=1):
        """One oracle judgement that held."""
        self.mon[monitor]["judged"] += n
        self.evaluations += n
        if trivial:
            self.trivial += n
        elif sig is not None:
            self.sigs.add((monitor,) + tuple(sig) if isinstance(sig, (tuple, list)) else (monitor, sig))

    def violation(self, monitor, key, msg, sig=None, **details):
        self.mon[monitor]["judged"] += 1
        self.mon[monitor]["violations"] += 1
        self.evaluations += 1
        if sig is not None:
            self.sigs.add((monitor,) + tuple(sig) if isinstance(sig, (tuple, list)) else (monitor, sig))
        drv, k = self.current if self.current else (None, None)
        rec = {
            "property": self.pid,
            "monitor": monitor,
            "key": key,
            "msg": msg,
            "driver": drv,
            "case": k,
            "seed": self.seed,
            "tier": self.tier,
            "details": jsonable(details),
        }
        if len(self.violations) < 400:
            self.violations.append(rec)
        else:
            self.notes["violations_dropped_after_400"] += 1
        return rec

    def check(self, monitor, cond, key, msg, sig=None, trivial=False, **details):
        if cond:
            self.ok(monitor, sig=sig, trivial=trivial)
            return True
        self.violation(monitor, key, msg() if callable(msg) else msg, sig=sig, **details)
        return False

    # ---- running cases ----------------------------------------------------------------------
    def mine(self, driver, k):
        if self.only is not None:
            return (driver, k) == tuple(self.only)
        return (_h("shard", driver, k) % self.nshards) == self.shard

    def run_case(self, driver, k, fn):
        import torch

        self.current = (driver, k)
        self.torch_seed(driver, k)
        rng = self.rng(driver, k)
        try:
            fn(self, k, rng)
        except HarnessError as e:
            self.errors.append({"driver": driver, "case": k, "error": repr(e), "tb": traceback.format_exc()[-3000:]})
        except Exception as e:  # library exception escaping a driver
            tb = traceback.extract_tb(e.__traceback__)
            from . import boot

            in_lib = [f for f in tb if os.path.realpath(f.filename).startswith(boot.REPO + os.sep)]
            if in_lib:
                last = in_lib[-1]
                self.violation(
                    "exception",
                    "exception." + type(e).__name__ + "@" + os.path.basename(last.filename) + ":" + last.name,
                    f"library raised {type(e).__name__}: {e} inside a case in the property's domain",
                    where=f"{last.filename}:{last.lineno}",
                    tb=traceback.format_exc()[-3000:],
                )
            else:
                self.errors.append(
                    {"driver": driver, "case": k, "error": repr(e), "tb": traceback.format_exc()[-3000:]}
                )
        finally:
            self.current = None
            if torch.is_grad_enabled() is False:
                torch.set_grad_enabled(True)
            if torch.get_default_dtype() != torch.float32:
                torch.set_default_dtype(torch.float32)

    def dump(self):
        return {
            "pid": self.pid,
            "tier": self.tier,
            "seed": self.seed,
            "shard": self.shard,
            "mon": {k: dict(v) for k, v in self.mon.items()},
            "sigs": sorted(json.dumps(jsonable(list(s))) for s in self.sigs),
            "trivial": self.trivial,
            "evaluations": self.evaluations,
            "samples": self.samples,
            "violations": self.violations,
            "errors": self.errors,
            "notes": dict(self.notes),
            "branches": dict(self.branches),
            "extra": jsonable(self.extra),
            "wall_s": time.time() - self.t0,
        }


# ---- known findings -----------------------------------------------------------------------------
def load_known():
    known, fixed = [], []
    if os.path.exists(KNOWN_FILE):
        for line in open(KNOWN_FILE):
            line = line.strip()
            if not line or line.startswith("#"):
                continue
            kind, _, rest = line.partition(":")
            rest = rest.strip()
            if kind == "known":
                toks = rest.split(None, 2)
                d = dict(t.split("=", 1) for t in toks[:2])
                known.append({"property": d["property"], "key": d["key"], "text": toks[2] if len(toks) > 2 else ""})
            elif kind == "fixed":
                fixed.append(rest)
    return known, fixed


def key_matches(pattern, key):
    if pattern.endswith("*"):
        return key.startswith(pattern[:-1])
    return pattern == key
