"""Realistic end-to-end scenarios (README / examples pipelines) with randomised parameters.

``scenario(rng)`` builds (derivative, hedge list, hedger, description) from the public API only.
"""
import math

import numpy as np
import torch

from pfhedge.features import Barrier
from pfhedge.features import ModuleOutput
from pfhedge.instruments import AmericanBinaryOption
from pfhedge.instruments import BrownianStock
from pfhedge.instruments import EuropeanBinaryOption
from pfhedge.instruments import EuropeanForwardStartOption
from pfhedge.instruments import EuropeanOption
from pfhedge.instruments import HestonStock
from pfhedge.instruments import KouJumpStock
from pfhedge.instruments import LocalVolatilityStock
from pfhedge.instruments import LookbackOption
from pfhedge.instruments import MertonJumpStock
from pfhedge.instruments import RoughBergomiStock
from pfhedge.instruments import VarianceSwap
from pfhedge.nn import BlackScholes
from pfhedge.nn import Hedger
from pfhedge.nn import MultiLayerPerceptron
from pfhedge.nn import Naked
from pfhedge.nn import WhalleyWilmott

from .gen import pick

STOCKS = ["brownian", "heston", "merton", "kou", "rbergomi", "localvol"]
OPTIONS = ["european", "lookback", "american_binary", "european_binary"]
DERIVS = OPTIONS + ["forward_start", "varswap"]


def lv_sigma(t, s):
    # smooth, bounded local volatility surface
    return 0.2 + 0.1 * torch.tanh(1.0 - s) + 0.05 * t


def make_stock(rng, kind=None, dtype=None, cost=None, dt=None):
    kind = kind or pick(rng, STOCKS)
    cost = float(pick(rng, [0.0, 1e-4, 1e-3, 1e-2])) if cost is None else cost
    dt_given = dt is not None
    dt = dt if dt_given else float(pick(rng, [1 / 250, 1 / 250, 1 / 52, 1 / 12, 0.01]))
    kw = dict(cost=cost, dt=dt, dtype=dtype)
    if kind == "brownian":
        s = BrownianStock(sigma=float(rng.uniform(0.05, 0.6)), mu=float(pick(rng, [0.0, 0.0, 0.1, -0.2])), **kw)
    elif kind == "heston":
        if rng.random() < 0.3:
            # far from the Feller condition: the variance reaches exactly zero on some paths and steps
            s = HestonStock(kappa=float(rng.uniform(0.2, 1)), theta=float(rng.uniform(0.002, 0.02)), sigma=float(rng.uniform(0.5, 1.5)),
                            rho=float(rng.uniform(-0.9, 0.0)), **kw)
        else:
            s = HestonStock(
                kappa=float(rng.uniform(0.5, 3)),
                theta=float(rng.uniform(0.01, 0.09)),
                sigma=float(rng.uniform(0.05, 0.6)),
                rho=float(rng.uniform(-0.9, 0.5)),
                **kw,
            )
    elif kind == "merton":
        s = MertonJumpStock(
            mu=float(pick(rng, [0.0, 0.05])),
            sigma=float(rng.uniform(0.05, 0.5)),
            jump_per_year=float(pick(rng, [0.0, 5.0, 68.0])),
            jump_mean=float(rng.uniform(-0.05, 0.05)),
            jump_std=float(rng.uniform(0.005, 0.05)),
            **kw,
        )
    elif kind == "kou":
        s = KouJumpStock(
            sigma=float(rng.uniform(0.05, 0.5)),
            mu=float(pick(rng, [0.0, 0.05])),
            jump_per_year=float(pick(rng, [0.0, 5.0, 68.0])),
            jump_mean_up=float(rng.uniform(0.01, 0.05)),
            jump_mean_down=float(rng.uniform(0.01, 0.08)),
            jump_up_prob=float(rng.uniform(0.2, 0.8)),
            **kw,
        )
    elif kind == "rbergomi":
        if not dt_given and rng.random() < 0.5:
            kw = dict(kw, dt=float(pick(rng, [1 / 2500, 1 / 1250])))  # also an intraday grid (several steps per trading day)
        s = RoughBergomiStock(
            alpha=float(rng.uniform(-0.45, -0.2)),
            rho=float(rng.uniform(-0.9, 0.0)),
            eta=float(rng.uniform(0.5, 2.0)),
            xi=float(rng.uniform(0.01, 0.09)),
            **kw,
        )
    elif kind == "localvol":
        s = LocalVolatilityStock(lv_sigma, **kw)
    else:
        raise ValueError(kind)
    s._pfv_kind = kind
    return s


def _steps_as_time(rng, k, dt):
    """A time of k steps written the ways users write it: k * dt, or k / n when dt = 1 / n."""
    n = round(1 / dt)
    if abs(1 / dt - n) < 1e-9 and rng.random() < 0.6:
        return k / n
    return k * dt


def make_derivative(rng, stock, kind=None, maturity=None, n_steps=None, clauses=None):
    kind = kind or pick(rng, DERIVS)
    if maturity is None:
        k = n_steps if n_steps is not None else int(pick(rng, [1, 2, 3, 5, 8, 20]))
        # mostly whole numbers of steps, sometimes a maturity between two grid points
        maturity = (k + float(pick(rng, [0.0, 0.0, 0.0, 0.0, 0.5, 0.3]))) * stock.dt if n_steps is None else k * stock.dt
    strike = float(pick(rng, [1.0, 1.0, 0.9, 1.1, 1.25, 0.8]))
    call = bool(rng.random() < 0.6)
    if kind == "european":
        d = EuropeanOption(stock, call=call, strike=strike, maturity=maturity)
    elif kind == "lookback":
        d = LookbackOption(stock, call=call, strike=strike, maturity=maturity)
    elif kind == "american_binary":
        d = AmericanBinaryOption(stock, call=call, strike=strike, maturity=maturity)
    elif kind == "european_binary":
        d = EuropeanBinaryOption(stock, call=call, strike=strike, maturity=maturity)
    elif kind == "forward_start":
        d = EuropeanForwardStartOption(stock, strike=strike, maturity=maturity, start=(maturity * float(pick(rng, [0.0, 0.3, 0.5])) if rng.random() < 0.6
                                              else _steps_as_time(rng, int(pick(rng, [k_ for k_ in (1, 2, 3, 5, 9, 11, 13, 15, 18, 19) if k_ * stock.dt <= maturity] or [0])),
                                                                  stock.dt)))
    elif kind == "varswap":
        d = VarianceSwap(stock, strike=float(rng.uniform(0.01, 0.09)), maturity=maturity)
    else:
        raise ValueError(kind)
    d._pfv_kind = kind
    d._pfv_clauses = []
    if clauses is None:
        clauses = rng.random() < 0.25
    if clauses:
        for nm in [CLAUSES[i] for i in rng.permutation(len(CLAUSES))[: int(rng.integers(1, 3))]]:
            d.add_clause(nm, CLAUSE_FNS[nm])
            d._pfv_clauses.append(nm)
    return d


def _knockout(derivative, payoff):
    return payoff.where(derivative.ul().spot.max(-1).values < 1.04, torch.zeros_like(payoff))


def _cap(derivative, payoff):
    return payoff.clamp(max=0.03)


def _scale_shift(derivative, payoff):
    return 2.0 * payoff + 0.01


CLAUSES = ["knockout", "cap", "scale_shift"]
CLAUSE_FNS = {"knockout": _knockout, "cap": _cap, "scale_shift": _scale_shift}


def bs_pricer(derivative):
    return BlackScholes(derivative).price(
        log_moneyness=derivative.log_moneyness(),
        time_to_maturity=derivative.time_to_maturity(),
        volatility=derivative.ul().volatility,
    )


def bs_pricer_lookback(derivative):
    return BlackScholes(derivative).price(
        log_moneyness=derivative.log_moneyness(),
        max_log_moneyness=derivative.max_log_moneyness(),
        time_to_maturity=derivative.time_to_maturity(),
        volatility=derivative.ul().volatility,
    )


def varswap_pricer(varswap):
    return varswap.ul().variance - varswap.strike


def make_hedge(rng, derivative, kind=None):
    """Returns (hedge_list or None, label). Listed instruments live on the derivative's own underlier."""
    stock = derivative.ul()
    kind = kind or pick(rng, ["ul", "ul", "none", "ul+eu", "eu", "ul+var", "eu+eu", "eu+ul"])
    mat = derivative.maturity
    if kind == "none":
        return None, kind
    if kind == "ul":
        return [stock], kind

    def listed_eu(strike, cost):
        e = EuropeanOption(stock, call=True, strike=strike, maturity=mat)
        e.list(bs_pricer, cost=cost)
        return e

    if kind == "ul+eu":
        return [stock, listed_eu(1.05, 1e-3)], kind
    if kind == "eu+ul":
        return [listed_eu(1.05, 1e-3), stock], kind  # the caller's order is the order of the hedge columns: a listed derivative may come first
    if kind == "eu":
        return [listed_eu(0.95, 5e-4)], kind
    if kind == "eu+eu":
        return [listed_eu(0.95, 5e-4), listed_eu(1.1, 2e-3)], kind
    if kind == "ul+var":
        v = VarianceSwap(stock, strike=0.04, maturity=mat)
        v.list(varswap_pricer, cost=1e-3)
        return [stock, v], kind
    raise ValueError(kind)


class Recurrent(torch.nn.Module):
    """A user module that uses prev_hedge (last H inputs)."""

    def __init__(self, n_in, n_out):
        super().__init__()
        self.lin = torch.nn.Linear(n_in, n_out)

    def forward(self, x):
        return torch.tanh(self.lin(x)) * 0.5 + 0.5 * x[..., -self.lin.out_features:]


class InPlaceFirstLayer(torch.nn.Module):
    """A user model whose first layer works in place on its input (as Hardtanh(inplace=True) / ReLU(inplace=True) first layers do): the tensor the
    hedger hands to the model is the model's to overwrite, so it must never be a view of market data or of the hedger's own state."""

    def __init__(self, n_in, n_out):
        super().__init__()
        self.lin = torch.nn.Linear(n_in, n_out)

    def forward(self, x):
        x.sub_(1.0).clamp_(-3.0, 3.0)
        return self.lin(x)


def feature_pool(derivative):
    option = hasattr(derivative, "strike") and hasattr(derivative, "max_moneyness")
    from pfhedge.features.features import Ones
    from pfhedge.features.features import UnderlierLogSpot

    pool = ["volatility", "variance", "underlier_spot", UnderlierLogSpot(), "zeros", Ones()]
    if option:
        pool += ["moneyness", "log_moneyness", "max_moneyness", "max_log_moneyness", "time_to_maturity", "expiry_time"]
    return pool


def make_features(rng, derivative, n=None, barrier=True):
    pool = feature_pool(derivative)
    n = n or int(rng.integers(1, 5))
    feats = [pick(rng, pool) for _ in range(n)]
    if barrier and rng.random() < 0.3:
        feats.append(Barrier(float(rng.uniform(0.9, 1.15)), up=bool(rng.random() < 0.5)))
    if rng.random() < 0.15:
        # a feature computed by a module with its own parameters (the no-transaction-band style of the examples)
        feats.append(ModuleOutput(torch.nn.Linear(2, 1), ["underlier_spot", "volatility"]))
    return feats


def make_hedger(rng, derivative, n_hedges, model_kind=None, dtype=None, criterion=None):
    option = getattr(derivative, "_pfv_kind", "") in OPTIONS
    kinds = ["naked", "linear", "mlp", "mlp_prev", "recurrent", "lazy_mlp", "inplace_single"]
    if n_hedges == 1 and option:
        kinds += ["bs", "bs", "ww"]
    model_kind = model_kind or pick(rng, kinds)
    bs_ok = option and not (
        derivative._pfv_kind in ("american_binary", "lookback") and not derivative.call
    )
    if model_kind in ("bs", "ww") and not (bs_ok and n_hedges == 1):
        model_kind = "linear"
    if model_kind == "bs":
        model = BlackScholes(derivative)
        inputs = model.inputs()
    elif model_kind == "ww":
        model = WhalleyWilmott(derivative, a=float(pick(rng, [0.5, 1.0, 3.0])))
        inputs = model.inputs()
    elif model_kind == "naked":
        model = Naked(out_features=n_hedges)
        inputs = ["empty"] if rng.random() < 0.5 else make_features(rng, derivative)
    elif model_kind == "inplace_single":
        # exactly one input feature (nothing to concatenate) and a first layer that overwrites its input
        single = pick(rng, ["underlier_spot", "volatility", "prev_hedge", "underlier_spot"] + (["log_moneyness", "moneyness"] if option else []))
        inputs = [single]
        model = InPlaceFirstLayer(n_hedges if single == "prev_hedge" else 1, n_hedges)
    else:
        inputs = make_features(rng, derivative)
        if model_kind in ("mlp_prev", "recurrent"):
            # the previous hedge either as the plain feature or passed through a (parameter-free) module-output feature
            inputs = inputs + (["prev_hedge"] if rng.random() < 0.75 else [ModuleOutput(torch.nn.Identity(), ["prev_hedge"])])
        n_in = len(inputs) + (n_hedges - 1 if model_kind in ("mlp_prev", "recurrent") else 0)
        if model_kind == "linear":
            model = torch.nn.Linear(n_in, n_hedges)
        elif model_kind == "recurrent":
            model = Recurrent(n_in, n_hedges)
        elif model_kind == "lazy_mlp":
            model = MultiLayerPerceptron(out_features=n_hedges, n_layers=2, n_units=6)
        else:
            model = MultiLayerPerceptron(
                in_features=n_in, out_features=n_hedges, n_layers=2, n_units=6, activation=torch.nn.Tanh()
            )
    kw = {}
    if criterion is not None:
        kw["criterion"] = criterion
    hedger = Hedger(model, inputs, **kw)
    if dtype is not None:
        hedger.to(dtype)
        for f_ in hedger.inputs.features:
            if isinstance(f_, torch.nn.Module):
                f_.to(dtype)  # FeatureList is not a Module: Hedger.to() does not reach module-output features
    hedger._pfv_kind = model_kind
    return hedger


def sibling(hedger, rng):
    """A second hedger built on the very same feature objects (the usual way of comparing two models on one feature set)."""
    import copy

    model = copy.deepcopy(hedger.model)
    with torch.no_grad():
        for p in model.parameters():
            p.add_(torch.as_tensor(rng.standard_normal(tuple(p.shape)) * 0.3).to(p))
    sib = Hedger(model, list(hedger.inputs.features), criterion=copy.deepcopy(hedger.criterion))
    sib._pfv_kind = getattr(hedger, "_pfv_kind", None)
    return sib


def fname(f):
    try:
        return str(f)
    except Exception:
        return repr(f)


def scenario(rng, dtype=None, stock_kind=None, deriv_kind=None, hedge_kind=None, model_kind=None,
             n_paths=None, criterion=None, n_steps=None, cost=None):
    dtype = dtype if dtype is not None else pick(rng, [None, torch.float64, torch.float64])
    stock = make_stock(rng, stock_kind, dtype=dtype, cost=cost)
    derivative = make_derivative(rng, stock, deriv_kind, n_steps=n_steps)
    hk = hedge_kind
    if hk is None:
        choices = ["ul", "ul", "none", "ul+eu", "eu", "eu+eu", "eu+ul"]
        if stock._pfv_kind == "heston":
            choices.append("ul+var")
        hk = pick(rng, choices)
    hedge, hk = make_hedge(rng, derivative, hk)
    n_h = 1 if hedge is None else len(hedge)
    hedger = make_hedger(rng, derivative, n_h, model_kind, dtype=dtype, criterion=criterion)
    n_paths = n_paths or int(pick(rng, [1, 2, 3, 7, 33]))
    desc = {
        "stock": stock._pfv_kind,
        "derivative": derivative._pfv_kind,
        "hedge": hk,
        "model": hedger._pfv_kind,
        "dtype": str(dtype),
        "n_paths": n_paths,
        "maturity": derivative.maturity,
        "dt": stock.dt,
        "cost": stock.cost,
        "inputs": [fname(f) for f in hedger.inputs.features],
        "clauses": list(derivative._pfv_clauses),
    }
    return derivative, hedge, hedger, n_paths, desc


def materialize(hedger, derivative, hedge):
    """Run the placeholder forward that initialises lazy parameters (as the docs describe)."""
    from pfhedge._utils.lazy import has_lazy

    if has_lazy(hedger):
        with torch.no_grad():
            hedger.compute_hedge(derivative, hedge)
        if derivative.ul().dtype is not None:
            hedger.to(derivative.ul().dtype)
