"""Black-Scholes expectations by numerical integration of the payoff against the model law (mpmath).

Zero rate; S_t = S exp(X_t), X_t ~ N(-sigma^2 t / 2, sigma^2 t); S = K e^s.  Nothing here uses the closed
price formulas: European prices integrate the payoff against the lognormal density, path-dependent prices
use the law of the running maximum of X (reflection principle) and integrate its survival function.
"""
import mpmath

mpmath.mp.dps = 30
mp = mpmath.mpf


def _f(x):
    return mp(float(x))


def european(s, t, v, K, call=True):
    s, t, v, K = _f(s), _f(t), _f(v), _f(K)
    S = K * mpmath.e ** s
    w = v * mpmath.sqrt(t)
    mu = -w * w / 2

    def dens(x):
        return mpmath.npdf((x - mu) / w) / w

    k = -s  # log(K/S)
    if call:
        f = lambda x: (S * mpmath.e ** x - K) * dens(x)  # noqa: E731
        pts = [k, k + w, k + 3 * w, k + 8 * w, max(k + 8 * w, mu) + 12 * w + 1]
        pts = sorted(set(pts + ([mu] if mu > k else [])))
        return mpmath.quad(f, pts) + mpmath.quad(f, [pts[-1], mpmath.inf])
    f = lambda x: (K - S * mpmath.e ** x) * dens(x)  # noqa: E731
    pts = sorted(set([min(k - 8 * w, mu) - 12 * w - 1, k - 8 * w, k - 3 * w, k - w, k] + ([mu] if mu < k else [])))
    return mpmath.quad(f, [-mpmath.inf, pts[0]]) + mpmath.quad(f, pts)


def european_binary(s, t, v, call=True):
    s, t, v = _f(s), _f(t), _f(v)
    w = v * mpmath.sqrt(t)
    mu = -w * w / 2
    k = -s
    p_ge = mpmath.ncdf(-(k - mu) / w)  # P(X >= k)
    return p_ge if call else 1 - p_ge


def max_cdf(m, t, v):
    """P(max_{u<=t} X_u <= m), m >= 0, X Brownian motion with drift -v^2/2 and volatility v."""
    w = v * mpmath.sqrt(t)
    if m < 0:
        return mp(0)
    return mpmath.ncdf((m + w * w / 2) / w) - mpmath.e ** (-m) * mpmath.ncdf((-m + w * w / 2) / w)


def american_binary(s, m, t, v):
    """Call, barrier = strike: pays 1 if the running maximum (already attained: K e^m) reaches K."""
    s, m, t, v = _f(s), _f(m), _f(t), _f(v)
    if m >= 0:
        return mp(1)
    return 1 - max_cdf(-s, t, v)


def lookback(s, m, t, v, K):
    """Fixed-strike lookback call with running maximum M = K e^m >= spot S = K e^s."""
    s, m, t, v, K = _f(s), _f(m), _f(t), _f(v), _f(K)
    S = K * mpmath.e ** s
    M = K * mpmath.e ** m
    B = max(M, K)

    def surv(y):
        return 1 - max_cdf(mpmath.log(y / S), t, v)

    w = v * mpmath.sqrt(t)
    hi = B * mpmath.e ** (12 * w + 1)
    pts = sorted({B, min(B * mpmath.e ** (w / 2), hi), min(B * mpmath.e ** (2 * w), hi), min(B * mpmath.e ** (5 * w), hi), hi})
    tail = mpmath.quad(surv, pts) + mpmath.quad(surv, [hi, mpmath.inf])
    return (B - K) + tail
