"""Risk-measure oracles written from the definitions (exact rational / 50-digit mpmath).

All functions take the sample as a list of python floats (exact values of the tensor entries).
"""
import math
from fractions import Fraction

import mpmath

mpmath.mp.dps = 50


def entropic(xs, a):
    a = mpmath.mpf(float(a))
    m = max(-a * mpmath.mpf(x) for x in xs)
    s = mpmath.fsum(mpmath.e ** (-a * mpmath.mpf(x) - m) for x in xs)
    return (m + mpmath.log(s) - mpmath.log(len(xs))) / a


def es_counts(p, n):
    """Admissible k = ceil(p n) (both neighbours if p n is within 1e-9 of an integer)."""
    pn = Fraction(float(p)) * n
    k = math.ceil(pn)
    ks = {k}
    r = round(pn)
    if abs(pn - r) < Fraction(1, 10**9):
        ks.update({r, r + 1})
    return sorted(kk for kk in ks if 1 <= kk <= n)


def expected_shortfall(xs, k):
    s = sorted(Fraction(x) for x in xs)[:k]
    return -sum(s) / k


def var_bounds(xs, p):
    """Admissible interval (lo, hi, kind) for the value at risk at level p.

    p n integral (= k): the k-th smallest; p n < 1: the minimum; p n > n - 1: the maximum; otherwise between the
    neighbouring order statistics.  When p n is within 1e-9 of n - 1 the library's float test ``p > 1 - 1/n`` may go
    either way, so both the (n-1)-th smallest and the maximum are admissible there.
    """
    n = len(xs)
    s = sorted(xs)
    pn = Fraction(float(p)) * n
    r = round(pn)
    if abs(pn - r) < Fraction(1, 10**9):
        r = min(max(r, 1), n)
        if n >= 2 and r >= n - 1:
            return s[r - 1], s[n - 1], "boundary"
        return s[r - 1], s[r - 1], "kth"
    if pn < 1:
        return s[0], s[0], "min"
    if pn > n - 1:
        return s[-1], s[-1], "max"
    return s[math.floor(pn) - 1], s[math.ceil(pn) - 1], "between"


def quadratic_cvar(xs, lam):
    """Exact minimum over w of w + lam * mean(max(-w - x, 0)^2). Returns (value, argmin) as Fractions."""
    n = len(xs)
    lam = Fraction(float(lam))
    y = sorted((-Fraction(x) for x in xs), reverse=True)  # y_(1) >= y_(2) >= ...
    S = Fraction(0)
    for k in range(1, n + 1):
        S += y[k - 1]
        wk = (S - Fraction(n) / (2 * lam)) / k
        upper = y[k - 1]
        lower = y[k] if k < n else None
        if wk <= upper and (lower is None or wk >= lower):
            val = wk + lam * sum((yy - wk) ** 2 for yy in y[:k]) / n
            return val, wk
    raise AssertionError("no stationary piece found")


def qcvar_objective(xs, lam, w):
    lam = Fraction(float(lam))
    w = Fraction(w)
    return w + lam * sum(max(-w - Fraction(x), 0) ** 2 for x in xs) / len(xs)


def qcvar_defect_regime(xs, lam):
    """True iff the shipped bisection bracket [ -max(x) - 1e-8, ... ] lies above the true root."""
    mx = max(Fraction(x) for x in xs)
    mean_gap = sum(mx - Fraction(x) for x in xs) / len(xs)
    # root is below the bracket's lower end (-max x - 1e-8) iff mean((max x - x)) + 1e-8 < 1/(2 lam)
    return mean_gap + Fraction(1, 10**8) < 1 / (2 * Fraction(float(lam)))


def exp_utility_mean(xs, a):
    a = mpmath.mpf(float(a))
    return mpmath.fsum(-mpmath.e ** (-a * mpmath.mpf(x)) for x in xs) / len(xs)


def isoelastic_mean(xs, a):
    a = mpmath.mpf(float(a))
    if float(a) == 1.0:
        return mpmath.fsum(mpmath.log(mpmath.mpf(x)) for x in xs) / len(xs)
    return mpmath.fsum(mpmath.mpf(x) ** (1 - a) for x in xs) / len(xs)
