"""pfv - runtime-monitoring harness for the pfhedge properties C01..C20 (see DESIGN.md)."""
