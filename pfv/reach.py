"""Reach monitor: which lines of the anchored functions did the workload really execute (sys.monitoring, 3.12).

LINE events are enabled only on the code objects of the anchored functions and every callback returns DISABLE, so the
cost is one event per distinct line.  The result goes into the evidence ("reach"): lines hit / executable lines.
"""
import dis
import importlib
import sys

TOOL = 4
_hits = {}
_codes = {}


def _resolve(spec):
    modname, _, qual = spec.partition(":")
    obj = importlib.import_module(modname)
    for part in qual.split("."):
        obj = getattr(obj, part)
    obj = getattr(obj, "__pfv_orig__", obj)
    if isinstance(obj, property):
        obj = obj.fget
    obj = getattr(obj, "__func__", obj)
    obj = getattr(obj, "__wrapped__", obj) if not hasattr(obj, "__code__") else obj
    return obj.__code__


def start(specs):
    mon = getattr(sys, "monitoring", None)
    if mon is None or not specs:
        return False
    try:
        mon.use_tool_id(TOOL, "pfv-reach")
    except ValueError:
        return False

    def on_line(code, line):
        _hits.setdefault(code, set()).add(line)
        return mon.DISABLE

    mon.register_callback(TOOL, mon.events.LINE, on_line)
    for spec in specs:
        try:
            code = _resolve(spec)
        except Exception:
            continue
        _codes[spec] = code
        mon.set_local_events(TOOL, code, mon.events.LINE)
    return True


def report():
    out = {}
    for spec, code in _codes.items():
        lines = sorted({ln for _, ln in dis.findlinestarts(code) if ln is not None and ln != code.co_firstlineno})
        hit = sorted(_hits.get(code, set()) & set(lines))
        out[spec] = {"lines_hit": len(hit), "lines_executable": len(lines), "missed": [ln for ln in lines if ln not in hit][:25]}
    return out


# ---- function-level reach: every function of the tree under test that the workload entered -----------------------------------
FTOOL = 5
_funcs = set()


def start_functions(root):
    """Record (file relative to root, qualified name) of every function under `root` that starts executing; one event per code object."""
    mon = getattr(sys, "monitoring", None)
    if mon is None:
        return False
    try:
        mon.use_tool_id(FTOOL, "pfv-funcs")
    except ValueError:
        return False
    root = root.rstrip("/") + "/"

    def on_start(code, offset):
        fn = code.co_filename
        if fn.startswith(root):
            _funcs.add(fn[len(root):] + ":" + code.co_qualname)
        return mon.DISABLE

    mon.register_callback(FTOOL, mon.events.PY_START, on_start)
    mon.set_events(FTOOL, mon.events.PY_START)
    return True


def functions_report():
    return sorted(f for f in _funcs if "<" not in f.split(":")[1].split(".")[-1] or "<lambda>" in f)


# ---- argument audit (off by default; PFV_ARGAUDIT=<dir>): which parameters of the library's functions did the workload ever move off their default ----
_args = {}


def start_argaudit(root):
    import inspect

    root = root.rstrip("/") + "/"
    defaults_cache = {}

    def prof(frame, event, arg):
        if event != "call":
            return
        code = frame.f_code
        fn = code.co_filename
        if not fn.startswith(root):
            return
        key = fn[len(root):] + ":" + code.co_qualname
        names = code.co_varnames[: code.co_argcount + code.co_kwonlyargcount]
        rec = _args.setdefault(key, {})
        loc = frame.f_locals
        for n in names:
            if n in ("self", "cls"):
                continue
            v = loc.get(n, None)
            if isinstance(v, (bool, int, float, str, type(None))):
                tag = repr(v) if not isinstance(v, float) else "float:%.6g" % v
            else:
                tag = type(v).__name__
            st = rec.setdefault(n, set())
            if len(st) < 6:
                st.add(tag)

    sys.setprofile(prof)


def argaudit_report():
    return {k: {n: sorted(v) for n, v in d.items()} for k, d in _args.items()}
