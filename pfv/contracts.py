"""Alias-complete wrapping of pfhedge functions and methods (the passive-monitor carrier).

pfhedge binds most functions with ``from x import f`` and copies base-class methods onto subclasses
(``_set_attr_and_docstring``), so a wrapper has to replace *every* binding of the original object.
"""
import functools
import inspect
import sys


def _pf_modules():
    return [m for n, m in list(sys.modules.items()) if m is not None and (n == "pfhedge" or n.startswith("pfhedge."))]


def wrap_function(modname, name, make):
    """Replace function ``modname.name`` and all of its aliases in pfhedge modules by make(orig)."""
    import importlib

    mod = importlib.import_module(modname)
    orig = getattr(mod, name)
    if getattr(orig, "__pfv_wrapped__", False):
        return []
    wrapped = functools.wraps(orig)(make(orig))
    wrapped.__pfv_wrapped__ = True
    wrapped.__pfv_orig__ = orig
    sites = []
    for m in _pf_modules():
        for k, v in list(vars(m).items()):
            if v is orig:
                setattr(m, k, wrapped)
                sites.append(f"{m.__name__}.{k}")
    if not sites:
        raise RuntimeError(f"no binding site found for {modname}.{name}")
    return sites


def all_classes(base):
    out, todo = [], [base]
    seen = set()
    while todo:
        c = todo.pop()
        if c in seen:
            continue
        seen.add(c)
        out.append(c)
        todo.extend(c.__subclasses__())
    return out


def wrap_method(base, name, make):
    """Replace method ``name`` wherever it is *defined* in the subclass tree of ``base``.

    Classes that hold the very same function object (copied by _set_attr_and_docstring) receive the
    same wrapper.  Returns the list of classes patched.
    """
    cache = {}
    sites = []
    for cls in all_classes(base):
        f = cls.__dict__.get(name)
        if f is None:
            continue
        raw = f
        kind = None
        if isinstance(f, staticmethod):
            continue
        if isinstance(f, classmethod):
            continue
        if isinstance(f, property):
            continue
        if getattr(raw, "__pfv_wrapped__", False):
            continue
        if not inspect.isfunction(raw):
            continue
        if id(raw) not in cache:
            w = functools.wraps(raw)(make(raw))
            w.__pfv_wrapped__ = True
            w.__pfv_orig__ = raw
            cache[id(raw)] = w
        setattr(cls, name, cache[id(raw)])
        sites.append(cls.__name__)
    if not sites:
        raise RuntimeError(f"no class defines {name} under {base.__name__}")
    return sites
