"""Import the pfhedge tree under test.

The tree is /repo unless PFV_REPO points at a scratch worktree (used only for the mutation
campaign).  A fresh interpreter is started per check/shard, so the *current working tree* is what
gets imported; PYTHONPYCACHEPREFIX (set by bin/check) keeps stale byte code out of the picture.
"""
import os
import sys
import warnings

REPO = os.path.realpath(os.environ.get("PFV_REPO", "/repo"))

warnings.filterwarnings("ignore", category=SyntaxWarning)
warnings.filterwarnings("ignore", category=DeprecationWarning)
warnings.filterwarnings("ignore", category=UserWarning)

if REPO in sys.path:
    sys.path.remove(REPO)
sys.path.insert(0, REPO)

import torch  # noqa: E402

torch.set_num_threads(1)

import pfhedge  # noqa: E402

_f = os.path.realpath(pfhedge.__file__)
if not _f.startswith(REPO + os.sep):
    raise SystemExit(f"pfv.boot: pfhedge imported from {_f}, expected under {REPO}")


def tree_identity():
    import hashlib
    import subprocess

    def run(*a):
        try:
            return subprocess.run(a, capture_output=True, text=True, timeout=30).stdout
        except Exception:
            return ""

    head = run("git", "-C", REPO, "rev-parse", "HEAD").strip()
    diff = run("git", "-C", REPO, "diff", "HEAD", "--", "pfhedge")
    return {
        "repo": REPO,
        "head": head,
        "dirty_diff_sha1": hashlib.sha1(diff.encode()).hexdigest() if diff else None,
    }
