"""Tensor write-sanitizer: identity + autograd version counter + byte hash of simulated buffers and caller tensors.

``Tensor._version`` is bumped by every in-place operation on the tensor *or any view of it*, which is
exactly the hazard (an in-place op on a view of a buffer); the byte hash additionally catches writes
that bypass the counter, and the identity catches silent replacement.
"""
import hashlib
import weakref

import torch


def digest(t):
    t = t.detach()
    if t.numel() == 0:
        return "empty"
    c = t.contiguous().cpu()
    if c.dtype == torch.bfloat16:
        c = c.view(torch.int16)
    return hashlib.blake2b(c.numpy().tobytes(), digest_size=12).hexdigest()


def stamp(t):
    return (id(t), t._version, tuple(t.shape), str(t.dtype), digest(t))


class BufferWatch:
    def __init__(self):
        self.live = weakref.WeakSet()
        self.snap = {}  # id(primary) -> {name: stamp}
        self.depth = 0  # > 0 while inside simulate()/to()/register_buffer (legitimate writers)

    def refresh(self, prim):
        self.live.add(prim)
        self.snap[id(prim)] = {n: stamp(b) for n, b in prim.named_buffers()}

    def forget(self, prim):
        self.snap.pop(id(prim), None)

    def verify(self):
        """Returns a list of (primary, buffer name, what changed) for every watched buffer that changed."""
        out = []
        if self.depth:
            return out
        for prim in list(self.live):
            old = self.snap.get(id(prim))
            if old is None:
                continue
            cur = dict(prim.named_buffers())
            for n, st in old.items():
                b = cur.get(n)
                if b is None:
                    out.append((prim, n, "buffer disappeared"))
                    continue
                now = stamp(b)
                if now != st:
                    what = []
                    if now[0] != st[0]:
                        what.append("replaced by another tensor object")
                    if now[1] != st[1]:
                        what.append(f"in-place write (version {st[1]} -> {now[1]})")
                    if now[4] != st[4]:
                        what.append("contents changed")
                    if now[2:4] != st[2:4]:
                        what.append(f"shape/dtype {st[2:4]} -> {now[2:4]}")
                    out.append((prim, n, ", ".join(what)))
            for n in cur:
                if n not in old:
                    out.append((prim, n, "new buffer appeared outside simulate()/register_buffer"))
        return out


def arg_stamps(args, kwargs):
    out = []
    for i, a in list(enumerate(args)) + list(kwargs.items()):
        if isinstance(a, torch.Tensor):
            out.append((i, a, a._version, digest(a)))
        elif isinstance(a, (list, tuple)):
            for j, b in enumerate(a):
                if isinstance(b, torch.Tensor):
                    out.append((f"{i}[{j}]", b, b._version, digest(b)))
    return out


def changed_args(stamps):
    bad = []
    for name, t, ver, dg in stamps:
        if t._version != ver or digest(t) != dg:
            bad.append(name)
    return bad
