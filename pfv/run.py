"""CLI: python -m pfv.run <ID> quick|thorough [--replay FILE] [--shard i/n --out FILE]"""
import argparse
import importlib
import json
import os
import shutil
import subprocess
import sys
import time

from . import core

ROOT = core.ROOT
WORK = os.path.join(ROOT, ".work")
PY = "/venv/bin/python"


def child_env(tag):
    env = dict(os.environ)
    env["PYTHONPYCACHEPREFIX"] = os.path.join(WORK, "pyc-" + tag)
    env["PYTHONHASHSEED"] = "0"
    env["PYTHONPATH"] = ROOT
    env["OMP_NUM_THREADS"] = "1"
    env["MKL_NUM_THREADS"] = "1"
    env["PFHEDGE_VERIF"] = "1"
    env["PYTHONWARNINGS"] = "ignore"
    return env


def run_shard(args):
    """Executed in a fresh interpreter: import the tree under test and run this shard's cases."""
    from . import boot  # noqa: F401  (imports pfhedge from the tree under test)

    mod = importlib.import_module("pfv.props." + args.pid.lower())
    i, n = (int(x) for x in args.shard.split("/"))
    only = None
    if args.only:
        d, k = args.only.rsplit(":", 1)
        only = (d, int(k))
    ctx = core.Ctx(args.pid, args.tier, args.seed, shard=i, nshards=n, only=only)
    from . import reach

    # anchors must be resolved before setup() wraps them (the wrappers keep the original in __pfv_orig__ anyway)
    reach_on = reach.start(getattr(mod, "ANCHORS", []))
    funcs_on = reach.start_functions(os.path.join(boot.REPO, "pfhedge"))
    if os.environ.get("PFV_ARGAUDIT"):
        reach.start_argaudit(os.path.join(boot.REPO, "pfhedge"))
    if hasattr(mod, "setup"):
        mod.setup(ctx)
    deadline = time.time() + args.budget
    for name, nq, nt, fn in mod.DRIVERS:
        ncases = nt if args.tier == "thorough" else nq
        for k in range(ncases):
            if not ctx.mine(name, k):
                continue
            if time.time() > deadline:
                ctx.note("watchdog_skipped_cases")
                continue
            ctx.run_case(name, k, fn)
    if hasattr(mod, "teardown"):
        mod.teardown(ctx)
    out = ctx.dump()
    out["reach"] = reach.report() if reach_on else {}
    out["functions"] = reach.functions_report() if funcs_on else []
    out["tree"] = boot.tree_identity()
    out["meta"] = {
        "rule": getattr(mod, "RULE", ""),
        "assumptions": getattr(mod, "ASSUMPTIONS", []),
        "deciding": getattr(mod, "DECIDING", []),
        "required_branches": getattr(mod, "REQUIRED_BRANCHES", []),
        "drivers": [[n_, q, t] for n_, q, t, _ in mod.DRIVERS],
    }
    if os.environ.get("PFV_ARGAUDIT"):
        sys.setprofile(None)
        os.makedirs(os.environ["PFV_ARGAUDIT"], exist_ok=True)
        with open(os.path.join(os.environ["PFV_ARGAUDIT"], f"{args.pid}-{i}.json"), "w") as f:
            json.dump(reach.argaudit_report(), f)
    with open(args.out, "w") as f:
        json.dump(out, f)


def merge(dumps):
    m = {
        "mon": {},
        "sigs": set(),
        "trivial": 0,
        "evaluations": 0,
        "samples": [],
        "violations": [],
        "errors": [],
        "notes": {},
        "branches": {},
        "extra": {},
        "reach": {},
        "functions": set(),
    }
    for d in dumps:
        m["functions"].update(d.get("functions") or [])
        for spec, r in (d.get("reach") or {}).items():
            cur = m["reach"].get(spec)
            if cur is None:
                m["reach"][spec] = {"lines_executable": r["lines_executable"], "missed": set(r["missed"]), "truncated": len(r["missed"]) >= 25}
            else:
                cur["missed"] &= set(r["missed"])
        for k, v in d["mon"].items():
            c = m["mon"].setdefault(k, {})
            for kk, vv in v.items():
                c[kk] = c.get(kk, 0) + vv
        m["sigs"].update(d["sigs"])
        m["trivial"] += d["trivial"]
        m["evaluations"] += d["evaluations"]
        for s in d["samples"]:
            if len(m["samples"]) < 8:
                m["samples"].append(s)
        m["violations"] += d["violations"]
        m["errors"] += d["errors"]
        for k, v in d["notes"].items():
            m["notes"][k] = m["notes"].get(k, 0) + v
        for k, v in d["branches"].items():
            m["branches"][k] = m["branches"].get(k, 0) + v
        for k, v in (d.get("extra") or {}).items():
            if isinstance(v, (int, float)) and isinstance(m["extra"].get(k, 0), (int, float)):
                m["extra"][k] = m["extra"].get(k, 0) + v
            elif isinstance(v, list):
                m["extra"].setdefault(k, [])
                m["extra"][k] = (m["extra"][k] + v)[:40]
            else:
                m["extra"].setdefault(k, v)
    return m


def main():
    ap = argparse.ArgumentParser()
    ap.add_argument("pid")
    ap.add_argument("tier", nargs="?", default=os.environ.get("VERIF_TIER", "quick"))
    ap.add_argument("--replay")
    ap.add_argument("--shard")
    ap.add_argument("--out")
    ap.add_argument("--only")
    ap.add_argument("--seed", type=int, default=int(os.environ.get("VERIF_SEED", "0") or 0))
    ap.add_argument("--budget", type=float, default=1e9)
    ap.add_argument("--nshards", type=int, default=0)
    args = ap.parse_args()
    args.pid = args.pid.upper()

    if args.shard:
        run_shard(args)
        return 0

    t0 = time.time()
    only = None
    if args.replay:
        rp = json.load(open(args.replay))
        args.pid, args.tier, args.seed = rp["property"], rp["tier"], rp["seed"]
        only = f"{rp['driver']}:{rp['case']}"
    replay_pytest = bool(args.replay) and rp.get("driver") == "pytest"
    tier = args.tier
    ncpu = os.cpu_count() or 4
    if only:
        nsh = 1
    elif args.nshards:
        nsh = args.nshards
    else:
        nsh = min(16, ncpu) if tier == "thorough" else min(8, ncpu)
    budget = 3000.0 if tier == "thorough" else 600.0

    tag = f"{args.pid}-{tier}-{os.getpid()}"
    wdir = os.path.join(WORK, tag)
    shutil.rmtree(wdir, ignore_errors=True)
    os.makedirs(wdir, exist_ok=True)
    env = child_env(tag)
    procs = []
    for i in range(0 if replay_pytest else nsh):
        out = os.path.join(wdir, f"shard{i}.json")
        cmd = [PY, "-m", "pfv.run", args.pid, tier, "--shard", f"{i}/{nsh}", "--out", out,
               "--seed", str(args.seed), "--budget", str(budget)]
        if only:
            cmd += ["--only", only]
        log = open(os.path.join(wdir, f"shard{i}.log"), "w")
        procs.append((i, out, subprocess.Popen(cmd, cwd=ROOT, env=env, stdout=log, stderr=subprocess.STDOUT), log))
    dumps, inconclusive = [], []
    for i, out, p, log in procs:
        try:
            rc = p.wait(timeout=budget + 600)
        except subprocess.TimeoutExpired:
            p.kill()
            rc = -9
        log.close()
        if rc != 0 or not os.path.exists(out):
            tail = open(os.path.join(wdir, f"shard{i}.log")).read()[-1500:]
            inconclusive.append(f"shard {i} exited rc={rc}: {tail}")
            continue
        dumps.append(json.load(open(out)))
    # ---- the repository's own tests as one more workload (thorough tier of the passive-monitor properties) ----------------
    pyt_info = None
    pmod_path = os.path.join(ROOT, "pfv", "props", args.pid.lower() + ".py")
    wants_pytest = os.path.exists(pmod_path) and "PYTEST_WORKLOAD = True" in open(pmod_path).read()
    if wants_pytest and ((tier == "thorough" and not only and dumps) or replay_pytest):
        repo = os.path.realpath(os.environ.get("PFV_REPO", "/repo"))
        ddir = os.path.join(wdir, "pytest")
        penv = dict(env, PFV_DUMP_DIR=ddir, PYTHONPATH=ROOT + os.pathsep + repo)
        target = [rp["case"]] if replay_pytest else ["tests"]
        cmd = [PY, "-m", "pytest", "-q", "-x" if False else "-q", "-p", "no:cacheprovider", "-p", "pfv.pytest_plugin", "--pfv-prop", args.pid, "--pfv-seed", str(args.seed),
               "-k", "not gpu", "--timeout=900"] + (["-n", str(min(16, ncpu))] if not replay_pytest else []) + target
        pr = subprocess.run(cmd, cwd=repo, env=penv, capture_output=True, text=True, timeout=3000)
        pd = []
        if os.path.isdir(ddir):
            for fn in sorted(os.listdir(ddir)):
                pd.append(json.load(open(os.path.join(ddir, fn))))
        tail = (pr.stdout or "").strip().splitlines()[-1:] or [""]
        pyt_info = {"pytest_summary": tail[0][:200], "processes": len(pd), "judgements": sum(d["evaluations"] for d in pd)}
        if replay_pytest:
            dumps = pd or dumps
        else:
            if not pd:
                inconclusive.append("pytest workload produced no monitor dump: " + (pr.stdout or pr.stderr)[-400:])
            dumps += pd
    if not dumps:
        print(f"INCONCLUSIVE property={args.pid} reason=no shard completed")
        for r in inconclusive:
            print(r)
        return 2
    m = merge(dumps)
    meta = next((d["meta"] for d in dumps if d.get("meta")), None) or {"rule": "", "assumptions": [], "deciding": [], "required_branches": [], "drivers": []}
    tree = next((d["tree"] for d in dumps if d.get("tree")), {})
    if pyt_info:
        m["extra"]["repo_test_suite_workload"] = pyt_info

    # ---- classify violations ---------------------------------------------------------------
    known, fixed = core.load_known()
    known = [k for k in known if k["property"] == args.pid]
    known_hit, unknown = {}, {}
    for v in m["violations"]:
        hit = next((k for k in known if core.key_matches(k["key"], v["key"])), None)
        if hit:
            known_hit.setdefault(hit["key"], [hit, 0, v])
            known_hit[hit["key"]][1] += 1
        else:
            unknown.setdefault((v["monitor"], v["key"]), []).append(v)

    for key, (hit, n, v) in sorted(known_hit.items()):
        print(f"KNOWN-FINDING: property={args.pid} {hit['text']} [key={key}, {n} observation(s)]")

    rc = 0
    replay_paths = []
    if unknown:
        rc = 1
        rdir = os.path.join(ROOT, "replays")
        os.makedirs(rdir, exist_ok=True)
        for (mon, key), vs in sorted(unknown.items()):
            v = vs[0]
            import hashlib

            hh = hashlib.sha1(json.dumps([mon, v["driver"], v["case"], v["seed"], v["tier"], key]).encode()).hexdigest()[:10]
            safe = "".join(c if c.isalnum() or c in "._-" else "_" for c in key)[:60]
            path = os.path.join(rdir, f"{args.pid}-{safe}-{hh}.json")
            v = dict(v)
            v["n_observations"] = len(vs)
            with open(path, "w") as f:
                json.dump(v, f, indent=1)
            replay_paths.append(path)
            print(f"VIOLATION property={args.pid} replay={path}")
            print(f"  monitor={mon} key={key} n={len(vs)} :: {v['msg'][:400]}")

    # ---- inconclusive? -------------------------------------------------------------------
    for e in m["errors"][:5]:
        inconclusive.append(f"harness error in {e['driver']}:{e['case']}: {e['error']}\n{e['tb'][-800:]}")
    if not only:
        for dm in meta["deciding"]:
            if m["mon"].get(dm, {}).get("judged", 0) == 0:
                inconclusive.append(f"deciding monitor {dm} judged nothing")
        for br in meta["required_branches"]:
            if m["branches"].get(br, 0) == 0:
                inconclusive.append(f"required branch never observed: {br}")
        if m["notes"].get("watchdog_skipped_cases"):
            inconclusive.append(f"watchdog skipped {m['notes']['watchdog_skipped_cases']} cases")

    # ---- evidence --------------------------------------------------------------------------
    wall = time.time() - t0
    if not only:
        ev = {
            "property_id": args.pid,
            "tier": tier if tier in ("quick", "thorough") else "quick",
            "seed": args.seed,
            "level": "exploration",
            "coverage": {
                "evaluations": m["evaluations"],
                "distinct_nontrivial": len(m["sigs"]),
                "trivial_evaluations": m["trivial"],
                "rule": meta["rule"],
                "samples": m["samples"],
                "monitors": m["mon"],
                "branches_observed": m["branches"],
                "notes": m["notes"],
                "reach": {k_: {"lines_executable": v_["lines_executable"], "lines_never_reached": sorted(v_["missed"]),
                               "lines_reached": v_["lines_executable"] - len(v_["missed"]) if not v_["truncated"] else None}
                          for k_, v_ in m["reach"].items()},
                "library_functions_entered": sorted(m["functions"]),
                "extra": m["extra"],
                "drivers_cases": meta["drivers"],
                "shards": nsh,
                "tree": tree,
                "known_findings_printed": sorted(known_hit),
                "unknown_violation_keys": sorted(f"{a}:{b}" for a, b in unknown),
                "inconclusive_reasons": inconclusive,
                "verdict": "violated" if rc == 1 else ("inconclusive" if inconclusive else "held on what was observed"),
                "exhaustive": bool(m["extra"].get("exhaustive", False)),
            },
            "assumptions": meta["assumptions"],
            "wall_s": round(wall, 2),
            "violations": len(m["violations"]),
        }
        # runs against a scratch tree (mutation campaign, PFV_REPO) must not overwrite the evidence of the real tree
        evdir = os.path.join(ROOT, "evidence") if not os.environ.get("PFV_REPO") else os.path.join(WORK, "evidence-scratch")
        os.makedirs(evdir, exist_ok=True)
        with open(os.path.join(evdir, f"{args.pid}.json"), "w") as f:
            json.dump(ev, f, indent=1, sort_keys=True)

    if rc == 0 and inconclusive:
        print(f"INCONCLUSIVE property={args.pid} reason={inconclusive[0][:300]}")
        for r in inconclusive[1:6]:
            print("  also:", r[:300])
        rc = 2
    print(
        f"[{args.pid} {tier} seed={args.seed}] evaluations={m['evaluations']} distinct={len(m['sigs'])} "
        f"violations={len(m['violations'])} known={sum(x[1] for x in known_hit.values())} "
        f"shards={nsh} wall={wall:.1f}s rc={rc}"
    )
    shutil.rmtree(wdir, ignore_errors=True)
    shutil.rmtree(os.path.join(WORK, "pyc-" + tag), ignore_errors=True)
    return rc


if __name__ == "__main__":
    sys.exit(main())
