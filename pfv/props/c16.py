"""C16 - computations never mutate market data nor depend on call history.

Write-sanitizer (passive, global): after every simulate()/to()/register_buffer exit the identity,
autograd version counter and byte hash of every buffer of every live primary are recorded and
re-checked at the exit of every public computation; every tensor argument of the functional API is
checked the same way.  Active: every feature / instrument / listed derivative is exercised, and random
operation sequences on one hedger with several derivatives are compared, bit for bit, with a fresh
hedger holding a copy of the same parameters on the same buffers.
"""
import copy
import inspect

import numpy as np
import torch

import pfhedge.autogreek as AG
import pfhedge.nn.functional as F
from pfhedge.features import Barrier
from pfhedge.features import ModuleOutput
from pfhedge.features import get_feature
from pfhedge.features._base import Feature
from pfhedge.instruments import BaseDerivative
from pfhedge.instruments import BasePrimary
from pfhedge.instruments import OptionMixin
from pfhedge.nn import BlackScholes
from pfhedge.nn import EntropicRiskMeasure
from pfhedge.nn import ExpectedShortfall
from pfhedge.nn import Hedger
from pfhedge.nn import HedgeLoss
from pfhedge.nn import MultiLayerPerceptron
from pfhedge.nn import WhalleyWilmott
from pfhedge.nn.modules.bs._base import BSModuleMixin

from .. import contracts
from .. import pipelines as P
from ..gen import F32, F64, pick, t
from ..sanitize import BufferWatch, arg_stamps, changed_args
from ..tol import bit_equal
from .c02 import all_features

RULE = (
    "calls driver: every registered feature + Barrier + log variants + ModuleOutput + listed spot, requested for single steps and for all steps, "
    "x 6 stock models x 6 derivative types x listed hedges, payoff / moneyness family / BS module Greeks / autogreek / criteria / hedger "
    "computations, all under the buffer write-sanitizer; functional driver: every public function of pfhedge.nn.functional with tensor "
    "arguments (plain, view, expanded, requires_grad) checked for argument mutation; sequences driver: random interleavings (length 3-12) of "
    "simulate / compute_hedge / compute_pl / compute_loss / price / fit(1) / to(dtype) over 3 derivatives of different type, path count and "
    "dtype on one hedger, final result compared bit for bit with a fresh hedger holding copied parameters. distinct = (computation, feature | "
    "function | op-sequence signature)"
)
ASSUMPTIONS = [
    "simulate(), to(), register_buffer() are the only legitimate writers of instrument buffers",
    "history independence is judged on deterministic models (no dropout) so that bit-identity is meaningful",
]
ANCHORS = ['pfhedge.features.features:UnderlierSpot.get',
           'pfhedge.features.features:Spot.get',
           'pfhedge.features._base:Feature.of',
           'pfhedge.features.container:ModuleOutput.of',
           'pfhedge.features.container:FeatureList.of',
           'pfhedge.nn.modules.hedger:Hedger.compute_hedge',
           'pfhedge.nn.functional:pl']
PYTEST_WORKLOAD = True  # thorough tier also runs /repo/tests with these passive monitors attached (DESIGN.md 2.7)
DECIDING = ["history.module_independent", "args.alias_invariant", "history.parameters_reassigned", "binding.stays_bound", "buffer.untouched", "args.untouched", "history.independent"]
REQUIRED_BRANCHES = ["seq.listed_hedge", "feature.log_all_steps", "feature.module_output", "listed.spot", "op.fit", "op.to", "op.price", "seq.dtype_switch",
                     "seq.path_count_switch"]

_CTX = None
WATCH = BufferWatch()
_NEST = [0]


def _after(what):
    ctx = _CTX
    if ctx is None or WATCH.depth:
        return
    ctx.seen("buffer.untouched")
    bad = WATCH.verify()
    if bad:
        for prim, name, how in bad[:3]:
            ctx.violation("buffer.untouched", "buffer_mutated." + what, f"{what} changed buffer '{name}' of {type(prim).__name__}: {how}",
                          sig=(what, name), computation=what, buffer=name, how=how)
        for prim, _, _ in bad:
            WATCH.refresh(prim)
    else:
        ctx.ok("buffer.untouched", sig=(what,))


def _mk_writer(orig):
    def writer(self, *a, **kw):
        WATCH.depth += 1
        try:
            return orig(self, *a, **kw)
        finally:
            WATCH.depth -= 1
            if WATCH.depth == 0:
                WATCH.refresh(self)

    return writer


def _mk_watched(label):
    def make(orig):
        def fn(*a, **kw):
            _NEST[0] += 1
            try:
                return orig(*a, **kw)
            finally:
                _NEST[0] -= 1
                who = label
                if a and not isinstance(a[0], torch.Tensor) and hasattr(a[0], "__class__") and label.startswith("."):
                    who = type(a[0]).__name__ + label
                _after(who)

        return fn

    return make


def _mk_method_args(label):
    """Like _mk_watched, and additionally: the tensor arguments of the method must come back unchanged."""
    def make(orig):
        def fn(self, *a, **kw):
            ctx = _CTX
            if ctx is None:
                return orig(self, *a, **kw)
            stamps = arg_stamps(a, kw)
            try:
                return orig(self, *a, **kw)
            finally:
                who = type(self).__name__ + label
                if stamps:
                    ctx.seen("args.untouched")
                    bad = changed_args(stamps)
                    if bad:
                        ctx.violation("args.untouched", "argument_mutated." + who, f"{who} modified its tensor argument(s) {bad}", sig=(who,), function=who)
                    else:
                        ctx.ok("args.untouched", sig=(who,))
                _after(who)

        return fn

    return make


def _mk_functional(name):
    def make(orig):
        def fn(*a, **kw):
            ctx = _CTX
            if ctx is None:
                return orig(*a, **kw)
            stamps = arg_stamps(a, kw)
            out = orig(*a, **kw)
            if stamps:
                ctx.seen("args.untouched")
                bad = changed_args(stamps)
                if bad:
                    ctx.violation("args.untouched", "argument_mutated." + name, f"{name} modified its tensor argument(s) {bad}", sig=(name,), function=name)
                else:
                    ctx.ok("args.untouched", sig=(name,))
            _after("functional." + name)
            return out

        return fn

    return make


def setup(ctx):
    global _CTX
    _CTX = ctx
    sites = {}
    for m in ("simulate", "to", "register_buffer"):
        sites["writer." + m] = contracts.wrap_method(BasePrimary, m, _mk_writer)
    for m in ("payoff", "payoff_fn"):
        contracts.wrap_method(BaseDerivative, m, _mk_watched("." + m))
    for m in ("moneyness", "log_moneyness", "time_to_maturity", "max_moneyness", "max_log_moneyness"):
        contracts.wrap_method(OptionMixin, m, _mk_watched("." + m))
    sites["Feature.get"] = contracts.wrap_method(Feature, "get", _mk_watched(".get"))
    for m in ("compute_hedge", "compute_pl", "compute_portfolio", "compute_loss", "price", "fit", "get_input"):
        contracts.wrap_method(Hedger, m, _mk_watched("Hedger." + m))
    for m in ("forward", "cash"):
        contracts.wrap_method(HedgeLoss, m, _mk_method_args("." + m))
    for m in ("price", "delta", "gamma", "vega", "theta", "implied_volatility", "forward"):
        try:
            contracts.wrap_method(BSModuleMixin, m, _mk_method_args("." + m))
        except RuntimeError:
            pass
    contracts.wrap_method(WhalleyWilmott, "forward", _mk_method_args(".forward"))
    from pfhedge.nn import Clamp, LeakyClamp, SVIVariance

    for cls_ in (Clamp, LeakyClamp, SVIVariance):
        contracts.wrap_method(cls_, "forward", _mk_method_args(".forward"))
    for m in ("delta", "gamma", "vega", "theta", "gamma_from_delta"):
        contracts.wrap_function("pfhedge.autogreek", m, _mk_watched("autogreek." + m))
    fnames = [n for n, f in vars(F).items() if inspect.isfunction(f) and getattr(f, "__module__", "") == "pfhedge.nn.functional" and not n.startswith("_")]
    for n in fnames:
        contracts.wrap_function("pfhedge.nn.functional", n, _mk_functional(n))
    ctx.extra["functional_wrapped"] = len(fnames)
    ctx.extra["sites"] = sites


# ---- drivers ------------------------------------------------------------------------------------------
def drv_calls(ctx, k, rng):
    dtype = pick(rng, [None, F64])
    stock = P.make_stock(rng, dtype=dtype)
    derivative = P.make_derivative(rng, stock, n_steps=int(pick(rng, [2, 3, 6])), clauses=None)
    option = derivative._pfv_kind in P.OPTIONS
    if derivative._pfv_kind == "european" and rng.random() < 0.6:
        derivative.list(P.bs_pricer, cost=1e-3)
        ctx.branch("listed.spot")
    n = int(pick(rng, [1, 3, 9]))
    derivative.simulate(n_paths=n)
    T = stock.spot.shape[1]
    with torch.no_grad():
        derivative.payoff()
        for f in all_features(rng, derivative):
            f = get_feature(f)
            if isinstance(f, torch.nn.Module) and dtype is not None:
                f.to(dtype)
            name = P.fname(f) if not isinstance(f, ModuleOutput) else "module_output"
            ff = f.of(derivative)
            if "log" in name:
                ctx.branch("feature.log_all_steps")
            if name == "module_output":
                ctx.branch("feature.module_output")
            ff.get(None)
            ff.get(int(rng.integers(T)))
            ff.get(None)
        if option:
            derivative.moneyness()
            derivative.log_moneyness(0)
            derivative.max_moneyness()
            derivative.max_log_moneyness(T - 1)
            derivative.time_to_maturity()
            bs_ok = not (derivative._pfv_kind in ("american_binary", "lookback") and not derivative.call)
            if bs_ok:
                m = BlackScholes(derivative)
                m.price()
                m.delta()
    if option and bs_ok:
        m = BlackScholes(derivative)
        m.gamma()
        m.vega()
        m.theta()
        with torch.no_grad():
            try:
                kw = dict(price=m.price())
                m.implied_volatility(**kw)
            except (RuntimeError, ValueError):
                pass  # inversion may legitimately fail to bracket; only mutation matters here
    if derivative.is_listed:
        # market data changed through another handle (the shared underlier itself): the listed price must follow it, not the call history
        stock.simulate(n_paths=n, time_horizon=derivative.maturity)
        mon = "history.independent"
        ctx.seen(mon)
        with torch.no_grad():
            ctx.check(mon, bit_equal(derivative.spot, derivative.pricer(derivative)), "stale_listed_price",
                      "listed derivative's spot is not the pricer applied to the current simulated series (stale after the underlier was re-simulated)",
                      sig=("listed_spot_fresh", type(stock).__name__))
    hedge, hk = P.make_hedge(rng, derivative, pick(rng, ["ul", "ul+eu", "eu", "none"]))
    n_h = 1 if hedge is None else len(hedge)
    hedger = P.make_hedger(rng, derivative, n_h, dtype=dtype, criterion=pick(rng, [EntropicRiskMeasure(), ExpectedShortfall(0.3)]))
    P.materialize(hedger, derivative, hedge)
    hedger.compute_hedge(derivative, hedge)
    hedger.compute_pl(derivative, hedge)
    pf = hedger.compute_portfolio(derivative, hedge)
    hedger.criterion(pf.detach(), derivative.payoff())
    hedger.criterion.cash(pf.detach())
    if not hedger.inputs.of(derivative, hedger).is_state_dependent():
        hedger.get_input(derivative, 0)  # (get_input binds no hedger, so it cannot serve prev_hedge inputs)
    if k < 3:
        ctx.sample({"driver": "calls", "derivative": repr(derivative)[:160], "hedge": hk, "model": hedger._pfv_kind})


def drv_functional(ctx, k, rng):
    dtype = pick(rng, [F32, F64])
    n, T = int(pick(rng, [1, 4])), int(pick(rng, [2, 5]))

    def mk(shape, positive=False, kind=None):
        kind = kind or pick(rng, ["plain", "view", "expanded", "grad"])
        a = np.exp(rng.standard_normal(shape) * 0.2) if positive else rng.standard_normal(shape)
        x = t(a, dtype)
        if kind == "view":
            big = torch.zeros((shape[0] + 2,) + tuple(shape[1:]), dtype=dtype)
            big[1:-1] = x
            return big[1:-1]
        if kind == "expanded" and len(shape) >= 1 and shape[0] > 1:
            return x[:1].expand(*shape)
        if kind == "grad":
            return x.requires_grad_()
        return x

    spot = mk((n, T), positive=True)
    for call in (True, False):
        F.european_payoff(spot, call=call, strike=1.0)
        F.lookback_payoff(spot, call=call)
        F.american_binary_payoff(spot, call=call)
        F.european_binary_payoff(spot, call=call)
    F.european_forward_start_payoff(spot, start_index=1)
    F.realized_variance(spot, 0.01)
    F.realized_volatility(spot, 0.01)
    sp3, un3 = mk((n, 2, T), positive=True), mk((n, 2, T))
    F.pl(sp3, un3, cost=[1e-3, 0.0], payoff=mk((n,)))
    F.terminal_value(sp3, un3, cost=[1e-3, 1e-2])
    x = mk((8, 3))
    F.exp_utility(x, 1.0)
    F.isoelastic_utility(x.detach().abs() + 0.1, 0.5)
    F.entropic_risk_measure(x, 2.0)
    F.expected_shortfall(x, 0.3, dim=0)
    F.value_at_risk(x, 0.3, dim=0)
    F.quadratic_cvar(x, 2.0, dim=0)
    F.topp(x, 0.5, dim=0)
    lo, hi = mk((8, 3)), mk((8, 3))
    F.clamp(x, lo, hi)
    F.leaky_clamp(x, lo, hi, clamped_slope=0.1, inverted_output="max")
    s, tt, v = mk((6,)) * 0.2, mk((6,), positive=True) * 0.3, mk((6,), positive=True) * 0.3
    m = torch.maximum(s.detach(), mk((6,)) * 0.1)
    F.d1(s, tt, v)
    F.d2(s, tt, v)
    F.ncdf(s)
    F.npdf(s)
    for call in (True, False):
        F.bs_european_price(s, tt, v, strike=1.1, call=call)
        F.bs_european_delta(s, tt, v, call=call)
        F.bs_european_binary_price(s, tt, v, call=call)
        F.bs_european_binary_delta(s, tt, v, call=call)
        F.bs_european_binary_gamma(s, tt, v, call=call)
        F.bs_european_binary_vega(s, tt, v, call=call)
        F.bs_european_binary_theta(s, tt, v, call=call)
    F.bs_european_gamma(s, tt, v)
    F.bs_european_vega(s, tt, v, 1.0)
    F.bs_european_theta(s, tt, v, 1.0)
    for nm in ("price", "delta", "gamma", "vega", "theta"):
        if nm == "price":
            F.bs_american_binary_price(s, m, tt, v)
        else:
            getattr(F, "bs_american_binary_" + nm)(s, m, tt, v, 1.0)
        getattr(F, "bs_lookback_" + nm)(s.detach(), m, tt.detach(), v.detach(), 1.2)
    from pfhedge.nn import Clamp, EntropicLoss, IsoelasticLoss, LeakyClamp, QuadraticCVaR

    xin, tgt = mk((8, 3)), mk((8, 3))
    for crit in (EntropicRiskMeasure(), ExpectedShortfall(0.3), EntropicLoss(), QuadraticCVaR(2.0)):
        crit(xin, tgt)
        crit.cash(xin, tgt)
    pos = mk((8,), positive=True)
    IsoelasticLoss(0.5)(pos + 1.0, pos.detach() * 0.5)
    Clamp()(x, lo, hi)
    LeakyClamp(0.1, inverted_output="max")(x, lo, hi)
    F.ww_width(mk((6,), positive=True), mk((6,), positive=True), 1e-3, 1.0)
    F.svi_variance(s, 0.04, 0.4, -0.4, 0.0, 0.1)
    F.bilerp(mk((6,)), mk((6,)), mk((6,)), mk((6,)), 0.3, mk((6,)))
    u1, u2 = torch.rand(6, dtype=dtype), torch.rand(6, dtype=dtype)
    F.box_muller(u1, u2)


def _same(a, b):
    return a.shape == b.shape and a.dtype == b.dtype and bool(((a == b) | (torch.isnan(a) & torch.isnan(b))).all())


def drv_alias(ctx, k, rng):
    """The same tensor object handed in for two arguments is the same input as two equal tensors."""
    from pfhedge.nn import Clamp, EntropicLoss, QuadraticCVaR

    dtype = pick(rng, [F32, F64])
    n, T = int(pick(rng, [2, 5])), int(pick(rng, [3, 6]))
    pos = t(np.exp(rng.standard_normal((n, 1, T)) * 0.2), dtype)
    x = t(rng.standard_normal((8, 3)), dtype)
    s = t(rng.uniform(-0.3, 0.3, 6), dtype)
    w = t(rng.uniform(0.1, 0.5, 6), dtype)
    cases = {
        "pl(spot, unit=spot)": lambda a, b: F.pl(a, b, cost=[1e-3]),
        "terminal_value(spot, unit=spot)": lambda a, b: F.terminal_value(a, b, cost=[1e-3]),
        "clamp(x, min=x)": lambda a, b: F.clamp(a, b, None),
        "leaky_clamp(x, max=x)": lambda a, b: F.leaky_clamp(a, None, b, clamped_slope=0.1),
        "Clamp()(x, x, x)": lambda a, b: Clamp()(a, b, b),
        "EntropicRiskMeasure(x, target=x)": lambda a, b: EntropicRiskMeasure()(a, b),
        "ExpectedShortfall(x, target=x)": lambda a, b: ExpectedShortfall(0.5)(a, b),
        "EntropicLoss.cash(x, target=x)": lambda a, b: EntropicLoss().cash(a, b),
        "QuadraticCVaR(x, target=x)": lambda a, b: QuadraticCVaR(2.0)(a, b),
        "bs_american_binary_price(s, max=s)": lambda a, b: F.bs_american_binary_price(a, b, w, w),
        "bs_lookback_price(s, max=s)": lambda a, b: F.bs_lookback_price(a, b, w, w, 1.1),
        "bs_lookback_delta(s, max=s)": lambda a, b: F.bs_lookback_delta(a, b, w, w, 1.1),
        "bs_lookback_gamma(s, max=s)": lambda a, b: F.bs_lookback_gamma(a, b, w, w, 1.1),
        "bs_lookback_vega(s, max=s)": lambda a, b: F.bs_lookback_vega(a, b, w, w, 1.1),
        "bs_european_price(s, t=v)": lambda a, b: F.bs_european_price(s, a, b),
        "bilerp(x, x, x, x)": lambda a, b: F.bilerp(a, b, a, b, 0.3, 0.6),
        "box_muller(u, u)": lambda a, b: torch.stack(F.box_muller(a, b)),
    }
    args = {"pl": pos, "te": pos, "cl": x, "le": x, "Cl": x, "En": x, "Ex": x, "Qu": x, "bs_a": s, "bs_l": s, "bs_e": w, "bi": x, "bo": torch.rand(6, dtype=dtype) * 0.9 + 0.05}
    mon = "args.alias_invariant"
    for name, fn in cases.items():
        key = next(k_ for k_ in sorted(args, key=len, reverse=True) if name.startswith(k_))
        a = args[key]
        ctx.seen(mon)
        try:
            with torch.enable_grad():
                want = fn(a, a.clone()).detach()
                a.requires_grad_(False)
                got = fn(a, a).detach()
                a.requires_grad_(False)
        except (ValueError, RuntimeError) as ex:
            if "lower < upper" in str(ex) or "max_iter" in str(ex):
                ctx.skipped(mon, "search_did_not_bracket")
                continue
            raise
        ctx.check(mon, _same(got, want), "alias_dependence", f"{name}: the result with one tensor object given for both arguments differs from the result with an equal copy",
                  sig=(name, str(dtype)), same_object=got.reshape(-1)[:4], equal_copy=want.reshape(-1)[:4])


def _attr_cases(rng):
    """(label, constructor(values), attribute values A, attribute values B, use(obj) -> tensor)"""
    from pfhedge.instruments import (AmericanBinaryOption, BrownianStock, EuropeanBinaryOption, EuropeanForwardStartOption, EuropeanOption, HestonStock, KouJumpStock,
                                     LookbackOption, MertonJumpStock, VarianceSwap, VasicekRate)
    from pfhedge.nn import (BSAmericanBinaryOption, BSEuropeanBinaryOption, BSEuropeanOption, BSLookbackOption, Clamp, EntropicLoss, IsoelasticLoss, LeakyClamp,
                            QuadraticCVaR, SVIVariance)

    x = t(rng.standard_normal((9, 2)), F64)
    s = t(rng.uniform(-0.3, 0.3, 5), F64)
    w = t(rng.uniform(0.1, 0.5, 5), F64)

    def sim(p):
        torch.manual_seed(11)
        p.simulate(n_paths=3, time_horizon=4 * p.dt)
        return torch.stack([b for _, b in sorted(p.named_buffers())])

    def pay(d):
        torch.manual_seed(11)
        d.simulate(n_paths=4)
        return d.payoff()

    stock = lambda: BrownianStock(sigma=0.3, dtype=F64)  # noqa: E731
    return [
        ("EntropicRiskMeasure.a", lambda a: EntropicRiskMeasure(a), dict(a=1.0), dict(a=2.5), lambda m: m(x)),
        ("EntropicLoss.a", lambda a: EntropicLoss(a), dict(a=1.0), dict(a=2.5), lambda m: torch.stack([m(x), m.cash(x)])),
        ("IsoelasticLoss.a", lambda a: IsoelasticLoss(a), dict(a=0.5), dict(a=1.0), lambda m: m(x.abs() + 0.2)),
        ("ExpectedShortfall.p", lambda p: ExpectedShortfall(p), dict(p=0.2), dict(p=0.7), lambda m: torch.stack([m(x), m.cash(x)])),
        ("QuadraticCVaR.lam", lambda lam: QuadraticCVaR(lam), dict(lam=2.0), dict(lam=9.0), lambda m: m(x)),
        ("Clamp.inverted_output", lambda inverted_output: Clamp(inverted_output=inverted_output), dict(inverted_output="mean"), dict(inverted_output="max"),
         lambda m: m(x, x.flip(0) + 0.1, x.flip(0) - 0.1)),
        ("LeakyClamp.clamped_slope", lambda clamped_slope: LeakyClamp(clamped_slope), dict(clamped_slope=0.01), dict(clamped_slope=0.3), lambda m: m(x, -0.3, 0.4)),
        ("SVIVariance", lambda a, b, rho, m, sigma: SVIVariance(a, b, rho, m, sigma), dict(a=0.02, b=0.3, rho=-0.3, m=0.0, sigma=0.2),
         dict(a=0.05, b=0.1, rho=0.4, m=0.1, sigma=0.5), lambda m: m(s)),
        ("BSEuropeanOption", lambda call, strike: BSEuropeanOption(call=call, strike=strike), dict(call=True, strike=1.0), dict(call=False, strike=1.3),
         lambda m: torch.stack([m.price(s, w, w), m.delta(s, w, w), m.gamma(s, w, w)])),
        ("BSEuropeanBinaryOption", lambda call, strike: BSEuropeanBinaryOption(call=call, strike=strike), dict(call=True, strike=1.0), dict(call=False, strike=1.3),
         lambda m: torch.stack([m.price(s, w, w), m.delta(s, w, w)])),
        ("BSLookbackOption.strike", lambda strike: BSLookbackOption(strike=strike), dict(strike=1.0), dict(strike=0.8), lambda m: m.price(s, s + 0.1, w, w)),
        ("BSAmericanBinaryOption.strike", lambda strike: BSAmericanBinaryOption(strike=strike), dict(strike=1.0), dict(strike=0.8), lambda m: m.delta(s, s + 0.1, w, w)),
        ("BrownianStock", lambda sigma, mu, dt: BrownianStock(sigma=sigma, mu=mu, dt=dt, dtype=F64), dict(sigma=0.2, mu=0.0, dt=1 / 250), dict(sigma=0.5, mu=0.1, dt=1 / 52), sim),
        ("HestonStock", lambda kappa, theta, sigma, rho: HestonStock(kappa=kappa, theta=theta, sigma=sigma, rho=rho, dtype=F64), dict(kappa=1.0, theta=0.04, sigma=0.2, rho=-0.7),
         dict(kappa=2.0, theta=0.09, sigma=0.4, rho=0.2), sim),
        ("MertonJumpStock", lambda sigma, jump_per_year, jump_mean, jump_std: MertonJumpStock(sigma=sigma, jump_per_year=jump_per_year, jump_mean=jump_mean, jump_std=jump_std, dtype=F64),
         dict(sigma=0.2, jump_per_year=68.0, jump_mean=0.0, jump_std=0.01), dict(sigma=0.3, jump_per_year=20.0, jump_mean=-0.05, jump_std=0.05), sim),
        ("KouJumpStock", lambda sigma, jump_per_year, jump_mean_up, jump_mean_down, jump_up_prob: KouJumpStock(sigma=sigma, jump_per_year=jump_per_year, jump_mean_up=jump_mean_up,
                                                                                                                jump_mean_down=jump_mean_down, jump_up_prob=jump_up_prob, dtype=F64),
         dict(sigma=0.2, jump_per_year=68.0, jump_mean_up=0.02, jump_mean_down=0.05, jump_up_prob=0.5), dict(sigma=0.3, jump_per_year=10.0, jump_mean_up=0.05, jump_mean_down=0.02, jump_up_prob=0.2), sim),
        ("VasicekRate", lambda kappa, theta, sigma: VasicekRate(kappa=kappa, theta=theta, sigma=sigma, dtype=F64), dict(kappa=1.0, theta=0.04, sigma=0.04), dict(kappa=3.0, theta=0.01, sigma=0.1), sim),
        ("EuropeanOption", lambda call, strike, maturity: EuropeanOption(stock(), call=call, strike=strike, maturity=maturity), dict(call=True, strike=1.0, maturity=5 / 250),
         dict(call=False, strike=1.05, maturity=9 / 250), pay),
        ("LookbackOption", lambda call, strike, maturity: LookbackOption(stock(), call=call, strike=strike, maturity=maturity), dict(call=True, strike=1.0, maturity=5 / 250),
         dict(call=False, strike=1.05, maturity=9 / 250), pay),
        ("AmericanBinaryOption", lambda call, strike, maturity: AmericanBinaryOption(stock(), call=call, strike=strike, maturity=maturity), dict(call=True, strike=1.0, maturity=5 / 250),
         dict(call=False, strike=0.98, maturity=9 / 250), pay),
        ("EuropeanBinaryOption", lambda call, strike, maturity: EuropeanBinaryOption(stock(), call=call, strike=strike, maturity=maturity), dict(call=True, strike=1.0, maturity=5 / 250),
         dict(call=False, strike=1.01, maturity=9 / 250), pay),
        ("EuropeanForwardStartOption", lambda strike, maturity, start: EuropeanForwardStartOption(stock(), strike=strike, maturity=maturity, start=start),
         dict(strike=1.0, maturity=8 / 250, start=2 / 250), dict(strike=1.02, maturity=10 / 250, start=4 / 250), pay),
        ("VarianceSwap", lambda strike, maturity: VarianceSwap(stock(), strike=strike, maturity=maturity), dict(strike=0.04, maturity=5 / 250), dict(strike=0.09, maturity=9 / 250), pay),
    ]


def drv_reassign(ctx, k, rng):
    """Parameters are plain public attributes (shown by repr): an object whose parameters were assigned after construction - possibly after it has been
    used - behaves exactly like a fresh object constructed with those values."""
    cases = _attr_cases(rng)
    label, ctor, va, vb, use = cases[k % len(cases)]
    used_first = bool(rng.random() < 0.5)
    obj = ctor(**va)
    if not all(hasattr(obj, n_) for n_ in vb):
        ctx.unsupported("history.parameters_reassigned")  # (the parameter is not kept as a public attribute of that name)
        return
    with torch.no_grad():
        if used_first:
            use(obj)
            ctx.branch("reassign.after_use")
        for n_, v_ in vb.items():
            setattr(obj, n_, v_)
        got = use(obj)
        want = use(ctor(**vb))
    mon = "history.parameters_reassigned"
    ctx.seen(mon)
    ctx.check(mon, _same(got, want), "reassigned_parameter_ignored", f"{label}: after assigning {vb} to an object constructed with {va}"
              f"{' and used' if used_first else ''}, it does not behave like a fresh object constructed with {vb}", sig=(label, used_first),
              reassigned=got.reshape(-1)[:6], fresh=want.reshape(-1)[:6])


def drv_module_history(ctx, k, rng):
    """A criterion / pricing / helper module evaluated on one input and then on another gives, on the second, what a fresh module gives."""
    import copy as _copy

    from pfhedge.nn import (BSAmericanBinaryOption, BSEuropeanBinaryOption, BSEuropeanOption, BSLookbackOption, Clamp, EntropicLoss, IsoelasticLoss, LeakyClamp, Naked,
                            QuadraticCVaR, SVIVariance)
    from pfhedge.nn.modules.loss import OCE

    dtype = pick(rng, [F32, F64])

    def xs(scale):
        return t(rng.standard_normal((int(pick(rng, [7, 7, 30])), 2)) * scale, dtype)

    def bs_args():
        s = t(rng.uniform(-0.3, 0.3, 5), dtype)
        return s, s + t(rng.uniform(0, 0.2, 5), dtype), t(rng.uniform(0.05, 1.0, 5), dtype), t(rng.uniform(0.1, 0.6, 5), dtype)

    mods = [
        ("EntropicRiskMeasure", EntropicRiskMeasure(2.0), lambda m, a: torch.stack([m(a), m.cash(a)])),
        ("EntropicLoss", EntropicLoss(0.7), lambda m, a: torch.stack([m(a), m.cash(a)])),
        ("IsoelasticLoss", IsoelasticLoss(0.5), lambda m, a: m(a.abs() + 0.2)),
        ("ExpectedShortfall", ExpectedShortfall(0.3), lambda m, a: torch.stack([m(a), m.cash(a)])),
        ("QuadraticCVaR", QuadraticCVaR(3.0), lambda m, a: torch.stack([m(a), m.cash(a)])),
        ("OCE", OCE(lambda x_: -torch.exp(-x_)).to(dtype), lambda m, a: m(a.clamp(-4, 4))),
        ("Clamp", Clamp(), lambda m, a: m(a, a.flip(0) - 0.3, a.flip(0) + 0.2)),
        ("LeakyClamp", LeakyClamp(0.1), lambda m, a: m(a, -0.4, 0.5)),
        ("SVIVariance", SVIVariance(0.03, 0.2, -0.3, 0.0, 0.3), lambda m, a: m(a)),
        ("Naked", Naked(2), lambda m, a: m(a)),
    ]
    for cls in (BSEuropeanOption, BSEuropeanBinaryOption):
        mods.append((cls.__name__, cls(call=bool(rng.random() < 0.5), strike=1.1), lambda m, a: torch.stack([m.price(a[0], a[2], a[3]), m.delta(a[0], a[2], a[3]),
                                                                                                               m.gamma(a[0], a[2], a[3]), m.vega(a[0], a[2], a[3])])))
    for cls in (BSLookbackOption, BSAmericanBinaryOption):
        mods.append((cls.__name__, cls(strike=0.9), lambda m, a: torch.stack([m.price(*a), m.delta(*a), m.gamma(*a)])))
    name, mod, use = mods[k % len(mods)]
    bs = name.startswith("BS")
    scale1, scale2 = float(pick(rng, [0.1, 1.0, 30.0])), float(pick(rng, [0.1, 1.0, 30.0]))
    a1 = bs_args() if bs else xs(scale1)
    a2 = bs_args() if bs else xs(scale2)
    fresh = _copy.deepcopy(mod)
    mon = "history.module_independent"
    ctx.seen(mon)
    try:
        use(mod, a1)
        if rng.random() < 0.5:
            use(mod, a1)
        got = use(mod, a2).detach()
        want = use(fresh, a2).detach()
    except (ValueError, RuntimeError) as ex:
        if "lower < upper" in str(ex) or "max_iter" in str(ex):
            ctx.skipped(mon, "search_did_not_bracket")
            return
        raise
    ctx.check(mon, _same(got, want), "module_history", f"{name}: the result on a second input depends on the input the module was evaluated on before "
              f"(scales {scale1} then {scale2})", sig=(name, str(dtype), scale1 < scale2), used=got.reshape(-1)[:6], fresh=want.reshape(-1)[:6])


def _make_listed(d):
    from pfhedge.instruments import EuropeanOption

    e = EuropeanOption(d.ul(), call=True, strike=d._listed_strike, maturity=d.maturity)
    e.list(P.bs_pricer, cost=1e-3)
    return e


def _hedge_of(d):
    return None if d._listed is None else [d._listed]


def _fresh(hedger, names, pristine):
    """A hedger that has never been used: the model and criterion are copies, the feature objects are copies taken before first use that receive the
    current parameter values (a copy of a used feature would carry along whatever the use left behind)."""
    feats = []
    for n, n0 in zip(names, pristine):
        if isinstance(n, str):
            feats.append(n)
            continue
        f = copy.deepcopy(n0)
        if isinstance(n, torch.nn.Module):
            ref = next(iter(n.parameters()), None)
            if ref is not None:
                f.to(ref.dtype)
            f.load_state_dict(copy.deepcopy(n.state_dict()))
        feats.append(f)
    return Hedger(copy.deepcopy(hedger.model), feats, criterion=copy.deepcopy(hedger.criterion))


def drv_sequences(ctx, k, rng):
    names = pick(rng, [["log_moneyness", "time_to_maturity", "volatility", "prev_hedge"],
                       ["moneyness", "max_moneyness", "volatility"],
                       ["log_moneyness", "time_to_maturity", "volatility"],
                       ["underlier_spot", "variance", "prev_hedge"]])
    names = list(names)
    if rng.random() < 0.35:
        # a feature with its own parameters, shared by every derivative the hedger is used with
        names.append(ModuleOutput(torch.nn.Linear(2, 1), ["underlier_spot", "volatility"]))
        ctx.branch("seq.module_output_feature")
    if rng.random() < 0.25:
        # a module-output feature that reads the hedger's own state
        names.append(ModuleOutput(torch.nn.Identity(), ["prev_hedge"]))
        ctx.branch("seq.module_output_of_prev_hedge")
    n_in = len(names)
    pristine = copy.deepcopy(names)
    model = MultiLayerPerceptron(in_features=n_in, out_features=1, n_layers=2, n_units=5, activation=torch.nn.Tanh())
    crit = pick(rng, [EntropicRiskMeasure(), ExpectedShortfall(0.4)])
    hedger = Hedger(model, list(names), criterion=crit)
    # a second hedger on the very same feature objects (two models compared on one feature set): each must behave as if it were alone
    hedgers = [hedger]
    if rng.random() < 0.4:
        hedgers.append(Hedger(MultiLayerPerceptron(in_features=n_in, out_features=1, n_layers=1, n_units=4, activation=torch.nn.Tanh()), list(names),
                              criterion=copy.deepcopy(crit)))
        ctx.branch("seq.two_hedgers_share_features")
    ders = []
    for i in range(3):
        dtype = pick(rng, [None, F64])
        # same shapes with different step sizes / dtypes are deliberate: anything cached by shape alone goes stale
        stock = P.make_stock(rng, pick(rng, ["brownian", "heston", "merton", "kou"]), dtype=dtype, dt=float(pick(rng, [1 / 250, 1 / 50])))
        d = P.make_derivative(rng, stock, pick(rng, P.OPTIONS), n_steps=int(pick(rng, [2, 4, 4, 7])), clauses=False)
        d._n = int(pick(rng, [1, 3, 3, 8]))
        # a listed option on the same underlier, usable as the hedging instrument instead of the underlier itself
        d._listed_strike = float(pick(rng, [0.95, 1.05]))
        d._listed = None
        if rng.random() < 0.5:
            d._listed = _make_listed(d)
            ctx.branch("seq.listed_hedge")
        ders.append(d)
    if len({str(d.ul().dtype) for d in ders}) > 1:
        ctx.branch("seq.dtype_switch")
    if len({d._n for d in ders}) > 1:
        ctx.branch("seq.path_count_switch")

    def use(d, hedger=hedger):
        dt_ = d.ul().dtype or torch.get_default_dtype()
        hedger.to(dt_)
        for f_ in hedger.inputs.features:
            if isinstance(f_, torch.nn.Module):
                f_.to(dt_)  # FeatureList is not a Module: Hedger.to() does not reach the parameters of module-output features
        if "spot" not in dict(d.ul().named_buffers()):
            d.simulate(n_paths=d._n)

    L = int(rng.integers(3, 13))
    seq = []
    kept = []
    caller_data = []
    for _ in range(L):
        op = pick(rng, ["simulate", "hedge", "pl", "loss", "price", "fit", "to", "hedge", "pl", "clause", "payoff_and_features", "keep_binding", "relist", "register_data", "simulate"])
        i = int(rng.integers(3))
        d = ders[i]
        j = int(rng.integers(len(hedgers)))
        hedger = hedgers[j]
        seq.append((op, i) if len(hedgers) == 1 else (op, i, "hedger%d" % j))
        if op == "simulate":
            d.simulate(n_paths=int(pick(rng, [d._n, d._n + 1])))
        elif op == "to":
            ctx.branch("op.to")
            d.to(pick(rng, [F32, F64]))
        elif op == "register_data":
            # the caller's own series handed to the instrument as market data (the instrument keeps the tensor): a later simulation replaces the
            # instrument's series, it never writes into the caller's tensor
            if [n_ for n_, _ in d.ul().named_buffers()] == ["spot"]:
                # (two more paths than before, so that the instrument takes the tensor itself; later simulations use this path count)
                old = d.ul().spot.detach()
                mine = torch.cat([old, old[:2] * 1.01]).clone()
                d.ul().register_buffer("spot", mine)
                d._n = int(mine.shape[0])
                caller_data.append((i, mine, mine.clone(), mine._version))
                ctx.branch("seq.caller_series_registered")
        elif op == "relist":
            # the listed hedge is taken off the market and listed again (same pricer and cost): nothing of the earlier listing may linger
            if d._listed is not None:
                d._listed.delist()
                d._listed.list(P.bs_pricer, cost=1e-3)
                ctx.branch("seq.delist_relist")
        elif op == "clause":
            d.add_clause("cap%d" % len(list(d.clauses())), lambda dd, p: p.clamp(max=0.05))
        elif op == "keep_binding":
            # the caller keeps the feature list bound to this derivative and reads it again at the end, after the same list has been bound elsewhere
            use(d, hedger)
            kept.append((i, hedger.inputs.of(d, hedger)))
            ctx.branch("seq.binding_kept")
        elif op == "payoff_and_features":
            use(d, hedger)
            with torch.no_grad():
                d.payoff()
                hedger.inputs.of(d, hedger)  # binds features to another derivative; must not leak into later results
        else:
            use(d, hedger)
            if op == "hedge":
                with torch.no_grad():
                    hedger.compute_hedge(d, _hedge_of(d))
            elif op == "pl":
                with torch.no_grad():
                    hedger.compute_pl(d, _hedge_of(d))
            elif op == "loss":
                hedger.compute_loss(d, _hedge_of(d), n_paths=d._n)
            elif op == "price":
                ctx.branch("op.price")
                hedger.price(d, _hedge_of(d), n_paths=d._n)
            elif op == "fit":
                ctx.branch("op.fit")
                hedger.fit(d, _hedge_of(d), n_epochs=1, n_paths=max(d._n, 2), verbose=False, validation=bool(rng.random() < 0.5))
    D = ders[int(rng.integers(3))]
    mon = "history.independent"
    # the underlier may also be re-simulated directly or through a sibling derivative: everything hanging off it must follow
    if rng.random() < 0.5:
        sib = pick(rng, [D.ul(), D])
        if sib is D:
            D.simulate(n_paths=D._n)
        else:
            sib.simulate(n_paths=D._n, time_horizon=D.maturity)
    for j, hedger in enumerate(hedgers):
        use(D, hedger)
        ctx.seen(mon)
        with torch.no_grad():
            h1 = hedger.compute_hedge(D, _hedge_of(D))
            p1 = hedger.compute_pl(D, _hedge_of(D))
            fresh = _fresh(hedger, names, pristine)
            fresh_hedge = None if D._listed is None else [_make_listed(D)]  # fresh instruments too: same contract, same underlier buffers
            h2 = fresh.compute_hedge(D, fresh_hedge)
            p2 = fresh.compute_pl(D, fresh_hedge)
            l1, l2 = hedger.criterion(p1), fresh.criterion(p2)
        ok = bit_equal(h1, h2) and bit_equal(p1, p2) and bit_equal(l1, l2)
        ctx.check(mon, ok, "history_dependence", f"after {seq} the result of hedger {j} on derivative {ders.index(D)} differs from a fresh hedger with the same parameters",
                  sig=(tuple(o[0] for o in seq)[:6], any(n == "prev_hedge" for n in names if isinstance(n, str)), type(D).__name__, j), sequence=seq,
                  used=h1.reshape(-1)[:8], fresh=h2.reshape(-1)[:8])
    for i, mine, orig_, ver_ in caller_data:
        ctx.seen("args.untouched")
        ctx.check("args.untouched", mine._version == ver_ and bit_equal(mine, orig_), "caller_series_overwritten",
                  f"after {seq} a tensor the caller registered as the spot series of derivative {i}'s underlier was written to", sig=("registered_series",), sequence=seq)
    mon = "binding.stays_bound"
    for i, bound in kept:
        d = ders[i]
        if "spot" not in dict(d.ul().named_buffers()):
            continue
        ctx.seen(mon)
        bad = {}
        with torch.no_grad():
            # (a feature counts as state dependent once it is bound to a hedger and keeps it: prev_hedge and module outputs of it)
            both = [(n, f) for n, f in zip(names, [get_feature(copy.deepcopy(n0)).of(d, hedgers[0]) for n0 in pristine]) if not f.is_state_dependent()]
            want = [f for _, f in both]
            got = [f for f in bound.features if not f.is_state_dependent()]
            ok = len(got) == len(want)
            if not ok:
                bad = dict(kept_features=[type(f).__name__ for f in bound.features], expected=[type(f).__name__ for f in want])
            if ok:
                for f, g, n in zip(got, want, [n for n, _ in both]):
                    if isinstance(n, torch.nn.Module):
                        continue  # parametrised module outputs follow the (trained) parameters; their binding is judged through the hedge above
                    a, b = f.get(0), g.get(0)
                    if not (a.shape == b.shape and bit_equal(a, b)):
                        ok = False
                        bad = dict(feature=P.fname(n), kept=a.reshape(-1)[:6], fresh=b.reshape(-1)[:6], kept_shape=list(a.shape), fresh_shape=list(b.shape))
                        break
        ctx.check(mon, ok, "binding_rebound", f"after {seq} a feature list bound earlier to derivative {i} no longer yields that derivative's features "
                  f"(binding it to another derivative reached into the earlier result)", sig=("kept", len(kept), type(d).__name__), sequence=seq, **bad)
    if k < 4:
        ctx.sample({"driver": "sequences", "inputs": names, "sequence": seq, "derivatives": [repr(d)[:80] for d in ders]})


DRIVERS = [
    ("calls", 100, 4000, drv_calls),
    ("functional", 40, 1500, drv_functional),
    ("sequences", 80, 4000, drv_sequences),
    ("alias", 16, 400, drv_alias),
    ("reassign", 48, 960, drv_reassign),
    ("module_history", 56, 1400, drv_module_history),
]
