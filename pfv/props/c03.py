"""C03 - batched and stepwise hedge evaluation agree; prev_hedge is the last output.

(a) every feature: get(i) versus get(None)[:, [i]] for every step; (b) the same model run through the
vectorised branch and (wrapped to ignore an appended prev_hedge input) through the stepwise branch;
(c) taps on the hedger's model (forward pre-hook / forward hook): the prev_hedge entries of the step-i
input are the step-(i-1) output, zeros with one entry per hedging instrument at step 0 - also on
repeated calls of the same hedger.
"""
import numpy as np
import torch

from pfhedge.features import ModuleOutput
from pfhedge.instruments import BaseDerivative
from pfhedge.instruments import OptionMixin
from pfhedge.features import get_feature
from pfhedge.nn import Hedger

from .. import pipelines as P
from ..gen import F32, F64, pick
from ..tol import bit_equal, ulp_diff
from .c02 import all_features

RULE = (
    "feature driver: every registered feature + Barrier up/down + log variants + ModuleOutput + listed spot x all steps x 6 stock "
    "models x 6 derivative types (volatile, non-monotone paths, few steps); branch driver: models {Linear, MLP(tanh), BlackScholes, "
    "Naked, user module} x hedge lists (H in 1..2, listed instruments) x n_paths {1,2,7,33} x f32/f64 run through both branches; "
    "tap driver: prev_hedge models with H in 1..3 instruments, two consecutive calls (same and different path counts). distinct = "
    "(feature | model, derivative, stock, H, dtype)"
)
ASSUMPTIONS = [
    "feature equality: <= 2 ulp (time to maturity: 4 ulp of the maturity, (T-1)dt - i dt and (T-1-i) dt round differently)",
    "branch equality: 1e-12 relative (float64) / 1e-5 (float32) of the hedge scale - matmul blocking differs between (N,T,F) and (N,1,F)",
]
ANCHORS = ['pfhedge.nn.modules.hedger:Hedger.compute_hedge',
           'pfhedge._utils.hook:save_prev_output',
           'pfhedge.features.features:PrevHedge.get',
           'pfhedge.features.container:FeatureList.get',
           'pfhedge.features.features:Barrier.get']
DECIDING = ["model_input.declared_order", "feature.step_equals_column", "branches.agree", "prev_hedge.is_last_output", "prev_hedge.zero_at_step0"]
REQUIRED_BRANCHES = ["prev_hedge.first", "prev_hedge.middle", "option_with_two_underliers", "underlier_on_another_grid", "H>1", "second_call_same_shape", "second_call_other_paths", "barrier.down.nonmonotone", "sibling_hedger_shares_features", "model.overwrites_its_single_input", "feature.steps_out_of_order"]


class TwoUnderlierOption(BaseDerivative, OptionMixin):
    """A user option whose `underlier` is not the first registered underlier (ul() and .underlier differ)."""

    def __init__(self, other, underlier, strike=1.0, maturity=0.1):
        super().__init__()
        self.register_underlier("other", other)
        self.register_underlier("underlier", underlier)
        self.call, self.strike, self.maturity = True, strike, maturity

    def payoff_fn(self):
        return torch.relu(self.underlier.spot[..., -1] - self.strike)


def drv_features(ctx, k, rng):
    dtype = pick(rng, [None, F64])
    stock = P.make_stock(rng, dtype=dtype, dt=float(pick(rng, [1 / 12, 1 / 52, 0.1])))
    derivative = P.make_derivative(rng, stock, n_steps=int(pick(rng, [1, 2, 4, 7])), clauses=False)
    if rng.random() < 0.15:
        other = P.make_stock(rng, "brownian", dtype=dtype, dt=stock.dt)
        derivative = TwoUnderlierOption(other, stock, strike=float(pick(rng, [1.0, 0.9])), maturity=int(pick(rng, [2, 4, 7])) * stock.dt)
        derivative._pfv_kind = "two_underlier_option"
        ctx.branch("option_with_two_underliers")
    if derivative._pfv_kind == "european" and rng.random() < 0.5:
        derivative.list(P.bs_pricer, cost=1e-3)
    n = int(pick(rng, [1, 4]))
    derivative.simulate(n_paths=n)
    if rng.random() < 0.3 and derivative._pfv_kind != "two_underlier_option":
        # the underlier is shared (e.g. with a listed hedge of another maturity) or simulated directly: its series need not have the
        # derivative's own number of steps
        stock.simulate(n_paths=n, time_horizon=int(pick(rng, [1, 3, 6, 9])) * stock.dt)
        ctx.branch("underlier_on_another_grid")
    spot = stock.spot
    T = spot.shape[1]
    bdt = spot.dtype
    e = float(torch.finfo(bdt).eps)
    mon = "feature.step_equals_column"
    for f in all_features(rng, derivative):
        f = get_feature(f)
        if isinstance(f, torch.nn.Module) and dtype is not None:
            f.to(dtype)
        name = P.fname(f) if not isinstance(f, ModuleOutput) else "module_output"
        if name.startswith("Barrier") and not f.up and T >= 3:
            # touched the barrier and came back: only a running minimum over the prefix gets this right
            if bool(((spot.cummin(1).values[:, -1] <= f.threshold) & (spot[:, -1] > f.threshold)).any()):
                ctx.branch("barrier.down.nonmonotone")
        ff = f.of(derivative)
        with torch.no_grad():
            full = ff.get(None)
            # the steps are asked for in the hedger's order, in a shuffled order, or with gaps: get(i) is a function of i, not of what was asked before
            order = list(range(T))
            how = pick(rng, ["increasing", "shuffled", "gaps"])
            if how == "shuffled":
                order = [int(j_) for j_ in rng.permutation(T)]
            elif how == "gaps" and T >= 3:
                order = sorted({0, T - 1} | {int(j_) for j_ in rng.integers(0, T, size=max(1, T // 3))})
            if how != "increasing" and T >= 3:
                ctx.branch("feature.steps_out_of_order")
            # (all single-step evaluations first, nothing else in between: a feature that carries state from one step to the next is then exposed)
            ones = {i: (ff.get(i) if (i + k) % 3 else ff[i]) for i in order}  # feature[i] is the older spelling of feature.get(i)
            for i in order:
                one = ones[i]
                ctx.seen(mon)
                col = full[:, [i]]
                if name in ("time_to_maturity", "expiry_time"):
                    ok = one.shape == col.shape and bool(((one - col).abs() <= 4 * e * (T - 1) * stock.dt + 1e-300).all())
                elif name == "module_output":
                    ok = one.shape == col.shape and bool(((one - col).abs() <= 64 * e * (col.abs() + 1)).all())
                else:
                    ok = one.shape == col.shape and ulp_diff(one, col) <= 2
                if not ok:
                    ctx.violation(mon, "step_vs_column", f"feature {name}: get({i}) != get(None)[:, [{i}]] (T={T})", sig=(name, type(stock).__name__),
                                  feature=name, step=i, single=one.reshape(-1)[:6], column=col.reshape(-1)[:6], spot=spot[:3])
                    break
                ctx.ok(mon, sig=(name, type(stock).__name__, derivative._pfv_kind, str(bdt)))
    if k < 3:
        ctx.sample({"driver": "features", "derivative": repr(derivative)[:150], "T": T, "spot_row0": spot[0]})


class IgnoreLast(torch.nn.Module):
    """Feeds all but the last `n_drop` inputs to the wrapped model (so that prev_hedge can be appended harmlessly)."""

    def __init__(self, model, n_drop):
        super().__init__()
        self.model = model
        self.n_drop = n_drop

    def forward(self, x):
        return self.model(x[..., : x.size(-1) - self.n_drop])


def drv_branches(ctx, k, rng):
    model_kind = pick(rng, ["linear", "mlp", "bs", "naked", "linear", "mlp", "inplace_single"])
    hk = pick(rng, ["ul", "ul", "ul+eu", "eu+eu", "none"])
    if model_kind == "bs":
        hk = "ul"
    derivative, hedge, hedger, n_paths, desc = P.scenario(rng, model_kind=model_kind, hedge_kind=hk, n_paths=int(pick(rng, [1, 2, 7, 33])),
                                                         deriv_kind=(pick(rng, P.OPTIONS) if model_kind == "bs" else None))
    if "empty" in desc["inputs"] or "prev_hedge" in desc["inputs"]:
        return
    if model_kind == "inplace_single":
        ctx.branch("model.overwrites_its_single_input")
    derivative.simulate(n_paths=n_paths)
    n_h = 1 if hedge is None else len(hedge)
    if n_h > 1:
        ctx.branch("H>1")
    feats = list(hedger.inputs.features)
    h2 = Hedger(IgnoreLast(hedger.model, n_h), feats + ["prev_hedge"], criterion=hedger.criterion)
    assert not hedger.inputs.of(derivative, hedger).is_state_dependent()
    assert h2.inputs.of(derivative, h2).is_state_dependent()
    with torch.no_grad():
        a = hedger.compute_hedge(derivative, hedge)
        b = h2.compute_hedge(derivative, hedge)
        pa, pb = hedger.compute_pl(derivative, hedge), h2.compute_pl(derivative, hedge)
        la, lb = hedger.criterion(pa), h2.criterion(pb)
    mon = "branches.agree"
    ctx.seen(mon)
    rel = 1e-12 if a.dtype == F64 else 1e-5
    # the two branches multiply the same numbers in (N,T,F) and (N,1,F) blocks: the difference is eps times the size of the *intermediate*
    # activations (O(1)), not of a possibly tiny output
    sc = float(a[torch.isfinite(a)].abs().max() if torch.isfinite(a).any() else 0.0) + 1.0
    fin = torch.isfinite(a) & torch.isfinite(b)
    ok = a.shape == b.shape and bool(((a - b).abs()[fin] <= rel * sc).all()) and bool((torch.isfinite(a) == torch.isfinite(b)).all())
    psc = float(pa[torch.isfinite(pa)].abs().max()) + sc if torch.isfinite(pa).any() else 1.0
    finp = torch.isfinite(pa) & torch.isfinite(pb)
    okp = bool(((pa - pb).abs()[finp] <= 100 * rel * psc).all())
    okl = (not torch.isfinite(la)) or (not torch.isfinite(lb)) or bool((la - lb).abs() <= 1000 * rel * (abs(float(la)) + psc))
    ctx.check(mon, ok and okp and okl, "branches", f"vectorised and stepwise evaluation disagree (hedge ok={ok}, P&L ok={okp}, loss ok={okl})",
              sig=(model_kind, desc["derivative"], desc["stock"], n_h, desc["dtype"]), trivial=(model_kind == "naked"), desc=desc,
              vectorised=a.reshape(-1)[:8], stepwise=b.reshape(-1)[:8], loss_vectorised=la, loss_stepwise=lb)
    if k < 3:
        ctx.sample({"driver": "branches", **desc, "hedge_vectorised_row0": a[0, 0, :5], "hedge_stepwise_row0": b[0, 0, :5]})


def drv_order(ctx, k, rng):
    """The model sees the features in the declared order - with prev_hedge anywhere in the list - and prev_hedge is the last output."""
    from pfhedge.features import get_feature

    dtype = pick(rng, [None, F64])
    stock = P.make_stock(rng, pick(rng, ["brownian", "heston", "merton"]), dtype=dtype, dt=1 / 250)
    derivative = P.make_derivative(rng, stock, pick(rng, P.OPTIONS), n_steps=int(pick(rng, [2, 3, 6])), clauses=False)
    hedge, hk = P.make_hedge(rng, derivative, pick(rng, ["ul", "ul+eu", "none"]))
    n_h = 1 if hedge is None else len(hedge)
    names = [pick(rng, ["log_moneyness", "moneyness", "time_to_maturity", "volatility", "max_moneyness", "underlier_spot"]) for _ in range(int(rng.integers(1, 4)))]
    pos = int(rng.integers(0, len(names) + 1))
    names.insert(pos, "prev_hedge")
    ctx.branch("prev_hedge.first" if pos == 0 else ("prev_hedge.last" if pos == len(names) - 1 else "prev_hedge.middle"))
    n_in = len(names) - 1 + n_h
    model = torch.nn.Linear(n_in, n_h)
    hedger = Hedger(model, list(names))
    if dtype is not None:
        hedger.to(dtype)
    n = int(pick(rng, [1, 3]))
    derivative.simulate(n_paths=n)
    ins, outs = [], []
    h1 = model.register_forward_pre_hook(lambda m, inp: ins.append(inp[0].detach().clone()))
    h2 = model.register_forward_hook(lambda m, inp, out: outs.append(out.detach().clone()))
    try:
        with torch.no_grad():
            hedger.compute_hedge(derivative, hedge)
    finally:
        h1.remove()
        h2.remove()
    T = stock.spot.shape[1]
    mon = "model_input.declared_order"
    feats = [get_feature(nm).of(derivative) if nm != "prev_hedge" else None for nm in names]
    for i in range(T - 1):
        ctx.seen(mon)
        with torch.no_grad():
            cols = [(outs[i - 1] if i > 0 else torch.zeros(n, 1, n_h, dtype=stock.spot.dtype)) if f is None else f.get(i) for f in feats]
        want = torch.cat(cols, dim=-1)
        if i >= len(ins) or ins[i].shape != want.shape or not bit_equal(ins[i], want):
            ctx.violation(mon, "input_order", f"step {i}: the tensor handed to the model is not the declared features {names} in order (prev_hedge = previous output)",
                          sig=(tuple(names), n_h), names=names, step=i, got=ins[i].reshape(-1)[:8] if i < len(ins) else None, want=want.reshape(-1)[:8])
            return
        ctx.ok(mon, sig=(pos == 0, pos == len(names) - 1, n_h, len(names)))


def drv_taps(ctx, k, rng):
    model_kind = pick(rng, ["mlp_prev", "recurrent", "ww", "mlp_prev"])
    hk = "ul" if model_kind == "ww" else pick(rng, ["ul", "ul+eu", "eu+eu", "ul+eu"])
    derivative, hedge, hedger, n_paths, desc = P.scenario(rng, model_kind=model_kind, hedge_kind=hk, n_paths=int(pick(rng, [1, 3, 8])),
                                                         deriv_kind=(pick(rng, P.OPTIONS) if model_kind == "ww" else None))
    n_h = 1 if hedge is None else len(hedge)
    if desc["model"] not in ("mlp_prev", "recurrent", "ww"):
        return  # the requested model does not exist for this derivative (e.g. Whalley-Wilmott for a lookback put)
    if n_h > 1:
        ctx.branch("H>1")
    sib = None
    if desc["model"] != "ww" and rng.random() < 0.3:
        sib = P.sibling(hedger, rng)  # a second hedger on the same feature objects, evaluated in between: its state is not this hedger's prev_hedge
        ctx.branch("sibling_hedger_shares_features")
    ins, outs = [], []
    h1 = hedger.model.register_forward_pre_hook(lambda m, inp: ins.append(inp[0].detach().clone()))
    h2 = hedger.model.register_forward_hook(lambda m, inp, out: outs.append(out.detach().clone()))
    second = pick(rng, ["same", "other_paths", "none"])
    runs = [n_paths] + ([n_paths] if second == "same" else ([n_paths + 2] if second == "other_paths" else []))
    try:
        for r, npth in enumerate(runs):
            if r == 1:
                ctx.branch("second_call_same_shape" if second == "same" else "second_call_other_paths")
            derivative.simulate(n_paths=npth)
            if sib is not None:
                P.materialize(sib, derivative, hedge)
                with torch.no_grad():
                    sib.compute_hedge(derivative, hedge)
            ins.clear()
            outs.clear()
            grad = bool(rng.random() < 0.3)
            with torch.set_grad_enabled(grad):
                hedge_out = hedger.compute_hedge(derivative, hedge)
            T = derivative.ul().spot.shape[1]
            sig = (model_kind, n_h, desc["derivative"], desc["stock"], "run%d" % r, second)
            mon0 = "prev_hedge.zero_at_step0"
            ctx.seen(mon0)
            if len(ins) != T - 1:
                ctx.violation(mon0, "n_steps", f"model called {len(ins)} times for T={T} time points (expected T-1)", sig=sig, desc=desc)
                break
            first = ins[0][..., -n_h:]
            ctx.check(mon0, first.shape == (npth, 1, n_h) and bool((first == 0).all()), "nonzero_initial_prev_hedge",
                      f"prev_hedge seen by the model at step 0 of call #{r + 1} is not zeros of shape (N,1,{n_h}): shape {tuple(first.shape)}, "
                      f"max |value| {float(first.abs().max()) if first.numel() else 0!r}", sig=sig, desc=desc, prev_hedge_step0=first.reshape(-1)[:8],
                      call=r + 1, second=second)
            mon = "prev_hedge.is_last_output"
            ok = True
            for i in range(1, T - 1):
                ctx.seen(mon)
                got = ins[i][..., -n_h:]
                if not (got.shape == outs[i - 1].shape and bit_equal(got, outs[i - 1])):
                    ctx.violation(mon, "prev_hedge_mismatch", f"prev_hedge input at step {i} is not the model output of step {i - 1}", sig=sig,
                                  desc=desc, step=i, prev_hedge=got.reshape(-1)[:8], last_output=outs[i - 1].reshape(-1)[:8])
                    ok = False
                    break
                ctx.ok(mon, sig=sig)
            # the hedge reported is the sequence of model outputs (last one repeated)
            if ok and T >= 2:
                stacked = torch.cat(outs + [outs[-1]], dim=-2).transpose(-1, -2)
                ctx.seen("hedge.is_model_outputs")
                ctx.check("hedge.is_model_outputs", bit_equal(stacked, hedge_out.detach()), "hedge_not_outputs",
                          "compute_hedge does not return the per-step model outputs (with the last repeated)", sig=sig, desc=desc)
    finally:
        h1.remove()
        h2.remove()
    if k < 3:
        ctx.sample({"driver": "taps", **desc, "runs": runs})


DRIVERS = [
    ("features", 60, 3000, drv_features),
    ("branches", 80, 4000, drv_branches),
    ("taps", 80, 4000, drv_taps),
    ("order", 60, 3000, drv_order),
]
