"""C12 - payoffs equal their contractual definitions and ordering.

Passive contracts on the functional payoffs (all aliases) and on payoff_fn of every derivative class
(oracle in exact arithmetic / mpmath on the buffer values, with the strike and flags read from the
derivative object), active drivers for ties, short paths, relations and clause order.
"""
import math
from fractions import Fraction

import mpmath
import numpy as np
import torch

import pfhedge.nn.functional as F
from pfhedge.instruments import BaseDerivative

from .. import contracts
from .. import pipelines as P
from ..gen import F32, F64, pick, price_paths, t

RULE = (
    "functional driver: paths (ties with the strike on a 1/8 grid, monotone, constant, T in {1,2,3,5,20}, batch "
    "dims) x strikes (representable and not) x call/put x dtype; derivative driver: simulated or grid-valued "
    "buffers x 6 derivative classes x 0-4 non-commuting clauses in random order. Oracle: exact rational payoff per "
    "path (mpmath logs for realized variance). distinct = distinct (function, class) signatures; trivial = all-zero payoffs"
)
ASSUMPTIONS = [
    "python-float strikes are rounded by torch to the tensor dtype in comparisons/subtractions; paths strictly between "
    "the exact strike and its rounding are not judged for the binary payoffs (counted as skipped)",
    "variance swap on a single time point (T=1) has no returns: out of domain",
    "row subsample (<= 12 paths incl. first/last and all paths tying with the strike) for large calls",
]
ANCHORS = ['pfhedge.nn.functional:european_payoff',
           'pfhedge.nn.functional:lookback_payoff',
           'pfhedge.nn.functional:american_binary_payoff',
           'pfhedge.nn.functional:european_binary_payoff',
           'pfhedge.nn.functional:european_forward_start_payoff',
           'pfhedge.nn.functional:realized_variance',
           'pfhedge.instruments.derivative.base:BaseDerivative.payoff',
           'pfhedge.instruments.derivative.cliquet:EuropeanForwardStartOption._start_index']
PYTEST_WORKLOAD = True  # thorough tier also runs /repo/tests with these passive monitors attached (DESIGN.md 2.7)
DECIDING = ["payoff.european", "payoff.lookback", "payoff.american_binary", "payoff.european_binary",
            "payoff.forward_start", "payoff.realized_variance", "derivative.payoff_fn", "clauses.order", "clauses.registry", "relations"]
REQUIRED_BRANCHES = ["contract_terms_reassigned", "forward_start.start_and_maturity_between_grid_points", "forward_start.end_before_last_step", "clauses.same_callable_registered_twice", "payoff_after_resimulation", "tie_with_unrepresentable_strike", "tie_with_strike", "call", "put", "T=1", "T=2"]

_CTX = None
MAXR = 12
mpmath.mp.dps = 40


def rounded(strike, dtype):
    return Fraction(torch.tensor(float(strike), dtype=dtype).item())


def pick_rows(ctx, x2, strike):
    n = x2.shape[0]
    if n <= MAXR:
        return list(range(n))
    rows = {0, n - 1}
    ties = ((x2 == strike).any(dim=-1)).nonzero().flatten().tolist()[:4]
    rows.update(ties)
    r = np.random.default_rng(n * 31 + x2.shape[1])
    while len(rows) < MAXR:
        rows.add(int(r.integers(n)))
    return sorted(rows)


def fr(v):
    return Fraction(v)


def judge_vanilla(ctx, mon, kind, inp, out, call, strike, sig):
    """kind in european, lookback, american_binary, european_binary."""
    if inp.dim() < 1 or inp.shape[-1] < 1 or not torch.isfinite(inp).all():
        ctx.ood(mon)
        return
    if out.shape != inp.shape[:-1]:
        ctx.violation(mon, "shape", f"payoff shape {tuple(out.shape)} for input {tuple(inp.shape)}", sig=sig)
        return
    if out.dtype != inp.dtype:
        ctx.violation(mon, "dtype", f"payoff dtype {out.dtype} for input {inp.dtype}", sig=sig)
        return
    T = inp.shape[-1]
    ctx.branch("call" if call else "put")
    if T <= 2:
        ctx.branch(f"T={T}")
    x2 = inp.reshape(-1, T)
    o1 = out.reshape(-1)
    K = Fraction(float(strike))
    Kd = rounded(strike, inp.dtype)
    e = float(torch.finfo(inp.dtype).eps)
    rows = pick_rows(ctx, x2, float(strike))
    xs = x2[rows].to(F64).tolist()
    os_ = o1[rows].to(F64).tolist()
    for j, r in enumerate(rows):
        path = [Fraction(v) for v in xs[j]]
        if kind in ("european", "european_binary"):
            ref = path[-1]
        else:
            ref = max(path) if call else min(path)
        got = os_[j]
        if ref == K or ref == Kd:
            ctx.branch("tie_with_strike")
        if kind in ("european", "lookback"):
            want = max(ref - K, 0) if call else max(K - ref, 0)
            bound = 2 * e * float(abs(ref) + abs(K)) + 1e-300
            if not (math.isfinite(got) and abs(Fraction(got) - want) <= bound):
                ctx.violation(mon, "value", f"{kind} payoff {got!r} != {float(want)!r} (call={call}, strike={strike})",
                              sig=sig, path=xs[j], strike=strike, call=call, observed=got, oracle=float(want))
                return
            if got < 0:
                ctx.violation(mon, "negative", f"{kind} payoff {got!r} < 0", sig=sig, path=xs[j], strike=strike, call=call)
                return
        else:
            lo, hi = min(K, Kd), max(K, Kd)
            if call:
                want = 1.0 if ref >= hi else (0.0 if ref < lo else None)
            else:
                want = 1.0 if ref <= lo else (0.0 if ref > hi else None)
            if want is None:
                ctx.skipped(mon, "between_strike_and_its_rounding")
                continue
            if got != want:
                ctx.violation(mon, "value", f"{kind} payoff {got!r} != {want!r} (call={call}, strike={strike}, extreme/terminal={float(ref)!r})",
                              sig=sig, path=xs[j], strike=strike, call=call, observed=got, oracle=want)
                return
    ctx.ok(mon, sig=sig, trivial=bool((out == 0).all()))


def judge_forward_start(ctx, mon, inp, out, strike, start_index, end_index, sig):
    if inp.dim() < 1 or not torch.isfinite(inp).all() or not (inp > 0).all():
        ctx.ood(mon)
        return
    T = inp.shape[-1]
    if out.shape != inp.shape[:-1]:
        ctx.violation(mon, "shape", f"payoff shape {tuple(out.shape)} for input {tuple(inp.shape)}", sig=sig)
        return
    if T <= 2:
        ctx.branch(f"T={T}")
    x2 = inp.reshape(-1, T)
    o1 = out.reshape(-1)
    K = Fraction(float(strike))
    e = float(torch.finfo(inp.dtype).eps)
    rows = pick_rows(ctx, x2, float(strike))
    xs = x2[rows].to(F64).tolist()
    os_ = o1[rows].to(F64).tolist()
    for j, r in enumerate(rows):
        path = [Fraction(v) for v in xs[j]]
        ratio = path[end_index] / path[start_index]
        want = max(ratio - K, 0)
        bound = 4 * e * float(abs(ratio) + abs(K))
        got = os_[j]
        if not (math.isfinite(got) and abs(Fraction(got) - want) <= bound):
            ctx.violation(mon, "value", f"forward-start payoff {got!r} != {float(want)!r} (start_index={start_index})",
                          sig=sig, path=xs[j], strike=strike, start_index=start_index, end_index=end_index,
                          observed=got, oracle=float(want))
            return
    ctx.ok(mon, sig=sig, trivial=bool((out == 0).all()))


def realized_variance_oracle(path, dt, dtype):
    """path: list of floats (>0). Returns (value, bound) in mpmath."""
    e = mpmath.mpf(float(torch.finfo(dtype).eps))
    ls = [mpmath.log(mpmath.mpf(v)) for v in path]
    tot = mpmath.mpf(0)
    err = mpmath.mpf(0)
    n = len(path) - 1
    for i in range(n):
        d = ls[i + 1] - ls[i]
        ei = 4 * e * (abs(ls[i]) + abs(ls[i + 1]) + abs(d))
        tot += d * d
        err += 2 * abs(d) * ei + ei * ei
    dtm = mpmath.mpf(float(dt))
    val = tot / n / dtm
    bound = err / n / dtm + (8 + 2 * n) * e * val
    return val, bound


def judge_realized(ctx, mon, inp, dt, out, sig, sqrt=False, shift=0.0):
    if isinstance(dt, torch.Tensor):
        if dt.numel() != 1:
            ctx.ood(mon)
            return
        dt = float(dt)
    if inp.dim() < 1 or inp.shape[-1] < 2 or not torch.isfinite(inp).all() or not (inp > 0).all() or not dt > 0:
        ctx.ood(mon)
        return
    T = inp.shape[-1]
    if out.shape != inp.shape[:-1]:
        ctx.violation(mon, "shape", f"shape {tuple(out.shape)} for input {tuple(inp.shape)}", sig=sig)
        return
    if T <= 2:
        ctx.branch(f"T={T}")
    x2 = inp.reshape(-1, T)
    o1 = out.reshape(-1)
    rows = pick_rows(ctx, x2, -1.0)[:6]
    xs = x2[rows].to(F64).tolist()
    os_ = o1[rows].to(F64).tolist()
    e = float(torch.finfo(inp.dtype).eps)
    for j, r in enumerate(rows):
        val, bound = realized_variance_oracle(xs[j], dt, inp.dtype)
        got = os_[j]
        if sqrt:
            want = mpmath.sqrt(val)
            b = (bound / (2 * want) if want > 0 else mpmath.sqrt(bound)) + 4 * e * want
        else:
            want = val - mpmath.mpf(float(shift))
            b = bound + 4 * e * (abs(val) + abs(mpmath.mpf(float(shift))))
        if not (math.isfinite(got) and abs(mpmath.mpf(got) - want) <= b + mpmath.mpf(10) ** -300):
            ctx.violation(mon, "value", f"realized {'volatility' if sqrt else 'variance'} {got!r} != {float(want)!r} (dt={dt})",
                          sig=sig, path=xs[j], dt=dt, observed=got, oracle=float(want), bound=float(b))
            return
    ctx.ok(mon, sig=sig)


def _sig(name, inp, call=None, strike=None):
    T = inp.shape[-1] if inp.dim() else 0
    return (name, str(inp.dtype), inp.dim(), "T=%s" % (T if T <= 3 else "many"), call,
            None if strike is None else (Fraction(float(strike)) == rounded(strike, inp.dtype)))


def _mk_vanilla(kind):
    def make(orig):
        def fn(input, call=True, strike=1.0):
            out = orig(input, call=call, strike=strike)
            ctx = _CTX
            if ctx is not None:
                mon = "payoff." + kind
                ctx.seen(mon)
                try:
                    judge_vanilla(ctx, mon, kind, input.detach(), out.detach(), call, strike, _sig(kind, input, call, strike))
                except Exception as e:
                    from ..core import HarnessError

                    raise HarnessError(f"{mon} oracle failed: {e!r}")
            return out

        return fn

    return make


def _mk_fs(orig):
    def european_forward_start_payoff(input, strike=1.0, start_index=0, end_index=-1):
        out = orig(input, strike=strike, start_index=start_index, end_index=end_index)
        ctx = _CTX
        if ctx is not None:
            ctx.seen("payoff.forward_start")
            judge_forward_start(ctx, "payoff.forward_start", input.detach(), out.detach(), strike, start_index, end_index,
                                _sig("forward_start", input, None, strike) + (start_index == 0,))
        return out

    return european_forward_start_payoff


def _mk_rv(sqrt):
    def make(orig):
        def fn(input, dt):
            out = orig(input, dt=dt)
            ctx = _CTX
            if ctx is not None:
                mon = "payoff.realized_volatility" if sqrt else "payoff.realized_variance"
                ctx.seen(mon)
                judge_realized(ctx, mon, input.detach(), dt, out.detach(), _sig(mon, input), sqrt=sqrt)
            return out

        return fn

    return make


def _mk_payoff_fn(orig):
    def payoff_fn(self):
        out = orig(self)
        ctx = _CTX
        if ctx is None:
            return out
        mon = "derivative.payoff_fn"
        name = type(self).__name__
        ctx.seen(mon)
        try:
            spot = self.ul().spot.detach()
            o = out.detach()
            sig = (name, str(spot.dtype), getattr(self, "call", None), "T=%s" % (spot.shape[1] if spot.shape[1] <= 3 else "many"))
            if o.shape != spot.shape[:1]:
                ctx.violation(mon, "shape", f"{name}.payoff_fn shape {tuple(o.shape)} for {spot.shape[0]} paths", sig=sig)
            elif name in ("EuropeanOption", "LookbackOption", "AmericanBinaryOption", "EuropeanBinaryOption"):
                kind = {"EuropeanOption": "european", "LookbackOption": "lookback",
                        "AmericanBinaryOption": "american_binary", "EuropeanBinaryOption": "european_binary"}[name]
                judge_vanilla(ctx, mon, kind, spot, o, self.call, self.strike, sig)
            elif name == "EuropeanForwardStartOption":
                r = Fraction(float(self.start)) / Fraction(float(self.ul().dt))
                k = math.floor(r)
                cands = {k}
                on_grid = abs(r - round(r)) <= Fraction(1, 10**9) * max(1, abs(r))
                if on_grid:
                    # a start time written as k steps (k/250, k*dt, ...): the contract starts at step k (the convention the time grid itself follows
                    # for maturities within rounding distance of a whole number of steps)
                    cands = {round(r), round(r) - 1}
                T = spot.shape[1]
                cands = {c for c in cands if 0 <= c < T}
                okc = None
                from ..core import Ctx

                for c in sorted(cands, reverse=True):
                    probe = Ctx(ctx.pid, ctx.tier, ctx.seed)
                    judge_forward_start(probe, mon, spot, o, self.strike, c, -1, sig)
                    if not probe.violations and probe.evaluations:
                        okc = c
                        break
                if okc is not None and on_grid and okc == round(r) - 1 and round(r) < T:
                    # one step early.  Known for exactly those (start, dt) whose float quotient start / dt falls below the integer (floor(start / dt));
                    # any other on-grid start that comes out one step early is a violation
                    float_floor = math.floor(float(self.start) / float(self.ul().dt))
                    key = "forward_start.float_ratio_below_integer" if float_floor == round(r) - 1 else "start_index"
                    ctx.violation(mon, key, f"forward-start option with start={self.start!r} = {round(r)} steps of dt={self.ul().dt!r} takes its reference price at step "
                                  f"{okc} (float quotient start / dt = {float(self.start) / float(self.ul().dt)!r})", sig=sig, start=self.start, dt=self.ul().dt,
                                  strike=self.strike, step_used=okc, step_contract=round(r))
                elif okc is not None:
                    ctx.ok(mon, sig=sig)
                elif not cands:
                    ctx.ood(mon)
                else:
                    ctx.violation(mon, "start_index", f"forward-start payoff does not use start index in {sorted(cands)} "
                                  f"(start={self.start}, dt={self.ul().dt})", sig=sig, spot=spot[:3], payoff=o[:3],
                                  start=self.start, dt=self.ul().dt, strike=self.strike)
            elif name == "VarianceSwap":
                judge_realized(ctx, mon, spot, self.ul().dt, o, sig, sqrt=False, shift=self.strike)
            else:
                ctx.ood(mon)
        except Exception as e:
            from ..core import HarnessError

            raise HarnessError(f"payoff_fn oracle failed: {e!r}")
        return out

    return payoff_fn


def setup(ctx):
    global _CTX
    _CTX = ctx
    sites = {}
    for kind, name in [("european", "european_payoff"), ("lookback", "lookback_payoff"),
                       ("american_binary", "american_binary_payoff"), ("european_binary", "european_binary_payoff")]:
        sites[name] = contracts.wrap_function("pfhedge.nn.functional", name, _mk_vanilla(kind))
    sites["fs"] = contracts.wrap_function("pfhedge.nn.functional", "european_forward_start_payoff", _mk_fs)
    sites["rv"] = contracts.wrap_function("pfhedge.nn.functional", "realized_variance", _mk_rv(False))
    sites["rvol"] = contracts.wrap_function("pfhedge.nn.functional", "realized_volatility", _mk_rv(True))
    ctx.extra["binding_sites"] = sites
    contracts.wrap_method(BaseDerivative, "payoff_fn", _mk_payoff_fn)


# ---- drivers ---------------------------------------------------------------------------------
def gen_paths(rng, dtype):
    T = int(pick(rng, [1, 1, 2, 2, 3, 5, 20]))
    n = int(pick(rng, [1, 2, 5, 40]))
    style = pick(rng, ["grid", "grid", "walk", "mono_up", "mono_down", "const"])
    if style == "grid":
        x = price_paths(rng, n, T, dtype, vol=0.15, s0=1.0, ties=True)
    elif style == "walk":
        x = price_paths(rng, n, T, dtype)
    elif style == "const":
        x = torch.full((n, T), float(pick(rng, [1.0, 0.875, 1.125])), dtype=dtype)
    else:
        base = np.sort(np.exp(rng.standard_normal((n, T)) * 0.2), axis=1)
        x = t(base if style == "mono_up" else base[:, ::-1].copy(), dtype)
    if rng.random() < 0.2:
        x = x.unsqueeze(0).expand(2, -1, -1).contiguous()
    return x, style


def drv_functional(ctx, k, rng):
    dtype = pick(rng, [F32, F64])
    x, style = gen_paths(rng, dtype)
    strike = float(pick(rng, [1.0, 0.875, 1.125, 1.1, 0.9, 1.0000001, 0.5]))
    if rng.random() < 0.4:
        # paths that touch the strike exactly (as far as the path dtype can hold it), also for strikes float32 cannot represent
        x = x.clone()
        kd = torch.tensor(strike, dtype=dtype)
        flat = x.reshape(-1, x.shape[-1])
        for r in range(flat.shape[0]):
            if rng.random() < 0.5:
                j = int(rng.integers(flat.shape[1]))
                flat[r, j] = kd
                if rng.random() < 0.5:  # make it the path extreme / terminal value as well
                    flat[r] = torch.minimum(flat[r], kd) if rng.random() < 0.5 else torch.maximum(flat[r], kd)
                    flat[r, -1] = kd if rng.random() < 0.5 else flat[r, -1]
        ctx.branch("tie_with_unrepresentable_strike" if float(kd) != strike or strike in (1.1, 0.9) else "tie_injected")
    res = {}
    for call in (True, False):
        res["eu", call] = F.european_payoff(x, call=call, strike=strike)
        res["lb", call] = F.lookback_payoff(x, call=call, strike=strike)
        res["ab", call] = F.american_binary_payoff(x, call=call, strike=strike)
        res["eb", call] = F.european_binary_payoff(x, call=call, strike=strike)
    T = x.shape[-1]
    si = int(rng.integers(0, T))
    F.european_forward_start_payoff(x, strike=strike, start_index=si)
    ei = int(rng.integers(-T, T))  # the option may also end before the last step (judged by the passive oracle with this end index)
    F.european_forward_start_payoff(x, strike=strike, start_index=si, end_index=ei)
    if ei not in (-1, T - 1):
        ctx.branch("forward_start.end_before_last_step")
    if T >= 2:
        dt = float(pick(rng, [1 / 250, 1 / 12, 0.1]))
        F.realized_variance(x, dt)
        F.realized_volatility(x, dt)
    # ordering relations on the same paths
    mon = "relations"
    ctx.seen(mon)
    e = float(torch.finfo(dtype).eps)
    sT = x[..., -1]
    ok = True
    why = ""
    for call in (True, False):
        if not bool((res["lb", call] >= res["eu", call]).all() and (res["eu", call] >= 0).all()):
            ok, why = False, f"lookback >= european >= 0 fails (call={call})"
        if not bool((res["ab", call] >= res["eb", call]).all()):
            ok, why = False, f"american binary >= european binary fails (call={call})"
    Kd = torch.tensor(strike, dtype=dtype)
    par = res["eu", True] - res["eu", False] - (sT - Kd)
    if not bool((par.abs() <= 4 * e * (sT.abs() + abs(strike))).all()):
        ok, why = False, "call - put != S_T - K"
    ctx.check(mon, ok, "ordering", why, sig=(style, str(dtype), T if T <= 3 else "many"), paths=x, strike=strike)
    if k < 5:
        ctx.sample({"driver": "functional", "style": style, "dtype": str(dtype), "strike": strike, "path0": x.reshape(-1, T)[0],
                    "european_call0": res["eu", True].reshape(-1)[0], "american_binary_put0": res["ab", False].reshape(-1)[0]})


def _clause_lib(rng):
    a = float(pick(rng, [0.5, 2.0, 3.0]))
    b = float(pick(rng, [0.25, -0.125, 1.0]))
    cap = float(pick(rng, [0.05, 0.25, 1.0]))
    bar = float(pick(rng, [1.0, 1.05, 1.2]))
    return {
        "scale": (lambda d, p: p * a, lambda spot, p: p * a),
        "shift": (lambda d, p: p + b, lambda spot, p: p + b),
        "cap": (lambda d, p: p.clamp(max=cap), lambda spot, p: torch.minimum(p, torch.full_like(p, cap))),
        "knockout": (lambda d, p: p.where(d.ul().spot.max(-1).values < bar, torch.zeros_like(p)),
                     lambda spot, p: torch.where(spot.max(-1).values < bar, p, torch.zeros_like(p))),
        "square": (lambda d, p: p * p, lambda spot, p: p * p),
    }


def drv_derivative(ctx, k, rng):
    dtype = pick(rng, [None, F64, F64])
    # (also step sizes that are not the reciprocal of a whole number of steps per year)
    stock = P.make_stock(rng, pick(rng, ["brownian", "brownian", "heston", "merton", "kou"]), dtype=dtype,
                         dt=(float(pick(rng, [0.003, 2 / 365, 1.5 / 250, 0.3])) if rng.random() < 0.3 else None))
    n_steps = int(pick(rng, [0, 1, 2, 4, 20]))
    frac = float(pick(rng, [0.0, 0.0, 0.5, 0.25]))
    d = P.make_derivative(rng, stock, maturity=(n_steps + (frac if n_steps else 0.0)) * stock.dt, clauses=False)
    if k % 6 == 3:
        # forward start with both the maturity and the start time between grid points (every combination of the two fractional parts:
        # the reference price is the one at the last step at or before the start, wherever the maturity falls)
        from pfhedge.instruments import EuropeanForwardStartOption

        nn_ = int(pick(rng, [1, 2, 3, 5, 8]))
        f1, f2 = float(pick(rng, [0.2, 0.4, 0.6, 0.75])), float(pick(rng, [0.1, 0.4, 0.6, 0.9]))
        j = int(rng.integers(0, nn_ + 1))
        if j + f2 > nn_ + f1:
            j = nn_ - 1 if nn_ >= 1 and f2 > f1 else nn_
        d = EuropeanForwardStartOption(stock, strike=float(pick(rng, [0.9, 1.0, 1.1])), maturity=(nn_ + f1) * stock.dt, start=(j + f2) * stock.dt)
        d._pfv_kind = "forward_start"
        n_steps = nn_
        ctx.branch("forward_start.start_and_maturity_between_grid_points")
    n = int(pick(rng, [1, 3, 30]))
    d.simulate(n_paths=n)
    if rng.random() < 0.5:
        T = stock.spot.shape[1]
        stock.register_buffer("spot", price_paths(rng, n, T, stock.spot.dtype, vol=0.12, s0=1.0, ties=True))
    if d._pfv_kind == "varswap" and stock.spot.shape[1] < 2:
        return
    base = d.payoff()  # payoff_fn monitor judges the contract
    if hasattr(d, "strike") and rng.random() < 0.35:
        # the contract terms are plain public attributes (shown by repr): a strike sweep / flag flip on one object takes effect (judged by the monitor)
        d.strike = float(pick(rng, [0.8, 1.0, 1.1, 1.3]))
        if hasattr(d, "call") and d._pfv_kind in ("european", "lookback", "european_binary", "american_binary"):
            d.call = not d.call
        ctx.branch("contract_terms_reassigned")
        base = d.payoff()
    if rng.random() < 0.4 and n_steps > 0:
        # new market data through the shared underlier: the payoff must be that of the *current* paths (judged again by the payoff_fn monitor)
        stock.simulate(n_paths=n, time_horizon=d.maturity)
        ctx.branch("payoff_after_resimulation")
        if d._pfv_kind == "varswap" and stock.spot.shape[1] < 2:
            return
        base = d.payoff()
    ctx.seen("derivative.payoff_shape")
    ctx.check("derivative.payoff_shape", base.shape == (n,), "shape", f"payoff shape {tuple(base.shape)} for {n} paths",
              sig=(d._pfv_kind,))
    lib = _clause_lib(rng)
    names = list(lib)
    m = int(pick(rng, [0, 1, 2, 3, 4]))
    order = [names[i] for i in rng.permutation(len(names))[:m]]
    # the same (non-idempotent) clause may be registered more than once under different names - a fee charged twice, a write-down applied at two dates
    if m >= 1 and rng.random() < 0.35:
        rep = order[int(rng.integers(len(order)))]
        order.insert(int(rng.integers(len(order) + 1)), rep)
        ctx.branch("clauses.same_callable_registered_twice")
    for j, nm in enumerate(order):
        d.add_clause("%s_%d" % (nm, j), lib[nm][0])
    ctx.seen("clauses.registry")
    ctx.check("clauses.registry", [n_ for n_, _ in d.named_clauses()] == ["%s_%d" % (nm, j) for j, nm in enumerate(order)] and len(list(d.clauses())) == len(order),
              "clause_registry", f"named_clauses() does not list the {len(order)} registered clauses in order", sig=(len(order),), clauses=order,
              listed=[n_ for n_, _ in d.named_clauses()])
    got = d.payoff()
    want = d.payoff_fn()
    spot = stock.spot
    for nm in order:
        want = lib[nm][1](spot, want)
    ctx.seen("clauses.order")
    ok = got.shape == want.shape and bool(torch.equal(got, want) or torch.allclose(got, want, rtol=0, atol=0, equal_nan=True))
    ctx.check("clauses.order", ok, "clause_order", f"payoff with clauses {order} is not the left fold in registration order",
              sig=(tuple(order), d._pfv_kind), trivial=(m < 2), clauses=order, got=got[:5], want=want[:5], base=base[:5])
    if k < 4:
        ctx.sample({"driver": "derivative", "derivative": repr(d)[:200], "clauses": order, "payoff_head": got[:3]})


def drv_witness(ctx, k, rng):
    """Fixed witness of the known finding forward_start.float_ratio_below_integer (43/250 / (1/250) = 42.99999999999999)."""
    from pfhedge.instruments import BrownianStock, EuropeanForwardStartOption

    d = EuropeanForwardStartOption(BrownianStock(dt=1 / 250, dtype=F64), strike=1.0, maturity=60 / 250, start=43 / 250)
    d.simulate(n_paths=3)
    d.payoff()


DRIVERS = [
    ("witness", 1, 1, drv_witness),
    ("functional", 300, 12000, drv_functional),
    ("derivative", 300, 8000, drv_derivative),
]
