"""C02 - hedges are non-anticipative and never trade at maturity.

Information-flow sanitizer: every buffer of every underlier is poisoned at columns > t (NaN taint,
x1000 / x0.001 scaling, independent resample) and the real compute_hedge / feature evaluation is
repeated; prefixes must be bit-identical.  The last reported position must equal the one before it.
"""
import numpy as np
import torch

from pfhedge.features import Barrier
from pfhedge.features import ModuleOutput
from pfhedge.features import list_feature_names
from pfhedge.features.features import Ones
from pfhedge.features.features import UnderlierLogSpot
from pfhedge.features.features import Spot
from pfhedge.nn import Hedger

from .. import pipelines as P
from ..gen import F32, F64, pick, t
from ..tol import bit_equal

RULE = (
    "scenarios: {Brownian, Heston, Merton, Kou, rough Bergomi, local vol} x 6 derivative types x hedge lists x models {Linear, MLP, "
    "MLP/recurrent with prev_hedge, lazy MLP, BlackScholes, WhalleyWilmott, Naked} x both evaluation branches, grad on/off; cut points "
    "t = all of 0..T-2 for T <= 12 else {0,1,T-3,T-2}+seeded; poisons {NaN, x1e3, x1e-3, resample} applied to every buffer at columns "
    "> t; feature driver: every registered feature + Barrier up/down + log variants + ModuleOutput + listed spot, get(t) and "
    "get(None)[:, :t+1]. distinct = (branch, model, derivative, stock, poison, feature); trivial = Naked model"
)
ASSUMPTIONS = [
    "NaN poison of variance/volatility buffers is not combined with Black-Scholes-type models evaluated on all columns at once (they "
    "legitimately reject NaN volatility); such rejections are counted, scaling/resample poisons are used there",
    "'empty' (uninitialised memory) is only combined with models that ignore their input",
]
ANCHORS = ['pfhedge.nn.modules.hedger:Hedger.compute_hedge',
           'pfhedge.instruments.derivative.base:OptionMixin.max_moneyness',
           'pfhedge.features.features:Barrier.get',
           'pfhedge.features.features:UnderlierSpot.get',
           'pfhedge.features.features:Spot.get',
           'pfhedge.features.features:Volatility.get',
           'pfhedge.features.features:Variance.get',
           'pfhedge.features.features:Moneyness.get']
DECIDING = ["hedge.prefix_invariant", "hedge.no_trade_at_maturity", "feature.prefix_invariant"]
REQUIRED_BRANCHES = ["model.random_layer_in_train_mode", "user_forward_hook_limits_position", "variance_exactly_zero_before_the_end", "feature.step_counted_from_the_end", "sibling_hedger_shares_features", "branch.stepwise", "branch.vectorised", "poison.nan", "poison.scale", "poison.resample", "grad.on", "grad.off"]


def snapshot(derivative):
    return [(ul, {n: b for n, b in ul.named_buffers()}) for ul in derivative.underliers()]


def restore(snap):
    for ul, bufs in snap:
        for n, b in bufs.items():
            ul.register_buffer(n, b)


def poison(snap, tcut, kind, rng, skip_nan_on_vol=False):
    for ul, bufs in snap:
        for n, b in bufs.items():
            nb = b.clone()
            fut = nb[:, tcut + 1:]
            if fut.numel() == 0:
                ul.register_buffer(n, nb)
                continue
            k = kind
            if k == "nan" and skip_nan_on_vol and n in ("variance", "volatility"):
                k = "scale_up"
            if k == "nan":
                fut.fill_(float("nan"))
            elif k == "scale_up":
                fut.mul_(1e3)
            elif k == "scale_down":
                fut.mul_(1e-3)
            else:
                fut.copy_(torch.as_tensor(np.exp(rng.standard_normal(tuple(fut.shape)) * 0.5) * 0.7).to(fut) * (0.05 if n == "variance" else 1.0))
            ul.register_buffer(n, nb)


def cuts(T, rng):
    if T <= 12:
        return list(range(0, T - 1))
    c = {0, 1, T - 3, T - 2}
    while len(c) < 7:
        c.add(int(rng.integers(0, T - 1)))
    return sorted(c)


def drv_hedge(ctx, k, rng):
    derivative, hedge, hedger, n_paths, desc = P.scenario(rng, n_paths=int(pick(rng, [1, 2, 5])))
    derivative.simulate(n_paths=n_paths)
    P.materialize(hedger, derivative, hedge)
    T = derivative.ul().spot.shape[1]
    if T < 2:
        return
    grad = bool(rng.random() < 0.4)
    ctx.branch("grad.on" if grad else "grad.off")
    if rng.random() < 0.25 or k % 10 == 3:
        # a user forward hook on the hedger that returns a modified output (a position limit): the reported hedge is what the call returns
        hedger.register_forward_hook(lambda mod_, inp_, out_: out_.clamp(-0.2, 0.35))
        ctx.branch("user_forward_hook_limits_position")
    model_kind = desc["model"]
    bsmodel = model_kind in ("bs", "ww")
    random_layer = False
    if model_kind in ("linear", "mlp") and (rng.random() < 0.2 or k % 10 == 7):
        # a model with a random layer, evaluated in train mode (as fit does): with the random state fixed before every evaluation the hedge is a
        # deterministic function of the market data, and the position at maturity is still the one held over the last step
        n_in_ = hedger.model.in_features if isinstance(hedger.model, torch.nn.Linear) else hedger.model[0].in_features
        n_h_ = 1 if hedge is None else len(hedge)
        ref_ = next(hedger.model.parameters())
        hedger.model = torch.nn.Sequential(torch.nn.Linear(n_in_, 6), torch.nn.Tanh(), torch.nn.Dropout(0.4), torch.nn.Linear(6, n_h_)).to(ref_.dtype)
        hedger.train()
        random_layer = True
        ctx.branch("model.random_layer_in_train_mode")
    mask_seed = int(rng.integers(1 << 30))
    snap = snapshot(derivative)
    stepwise = hedger.inputs.of(derivative, hedger).is_state_dependent()
    ctx.branch("branch.stepwise" if stepwise else "branch.vectorised")
    # another hedger built on the same feature objects and evaluated in between (comparing two models on one feature set): whatever it leaves in the
    # shared features is information about the whole path
    sib = P.sibling(hedger, rng) if (not bsmodel and rng.random() < 0.3) else None
    if sib is not None:
        ctx.branch("sibling_hedger_shares_features")

    def run_sibling():
        if sib is not None:
            try:
                with torch.no_grad():
                    sib.compute_hedge(derivative, hedge)
            except ValueError:
                pass

    run_sibling()
    if random_layer:
        torch.manual_seed(mask_seed)
    with torch.set_grad_enabled(grad):
        h0 = hedger.compute_hedge(derivative, hedge).detach().clone()
    n_h = 1 if hedge is None else len(hedge)
    sig0 = ("stepwise" if stepwise else "vectorised", model_kind, desc["derivative"], desc["stock"])
    mon = "hedge.no_trade_at_maturity"
    ctx.seen(mon)
    ctx.check(mon, h0.shape == (n_paths, n_h, T) and bit_equal(h0[..., -1], h0[..., -2]), "trade_at_maturity",
              f"hedge at the final index differs from the one held over the last step (grad={'on' if grad else 'off'})",
              sig=sig0 + (grad,), trivial=(model_kind == "naked"), desc=desc, last=h0[..., -1], before=h0[..., -2], grad=grad)
    mon = "hedge.prefix_invariant"
    for tc in cuts(T, rng):
        kind = pick(rng, ["nan", "nan", "scale_up", "scale_down", "resample"])
        ctx.branch("poison." + ("scale" if kind.startswith("scale") else kind))
        poison(snap, tc, kind, rng, skip_nan_on_vol=(bsmodel and not stepwise))
        ctx.seen(mon)
        run_sibling()
        if random_layer:
            torch.manual_seed(mask_seed)
        try:
            with torch.set_grad_enabled(grad):
                h1 = hedger.compute_hedge(derivative, hedge).detach()
        except ValueError as ex:
            if kind == "nan":
                ctx.skipped(mon, "poison_rejected_by_input_validation")
                restore(snap)
                continue
            raise
        finally:
            restore(snap)
        ok = h1.shape == h0.shape and bit_equal(h1[..., : tc + 1], h0[..., : tc + 1])
        if not ok:
            diff = (h1[..., : tc + 1] != h0[..., : tc + 1]) & ~(torch.isnan(h1[..., : tc + 1]) & torch.isnan(h0[..., : tc + 1]))
            first = diff.nonzero()[0].tolist() if diff.any() else None
            ctx.violation(mon, "anticipation", f"changing the future (columns > {tc}, poison {kind}) changed the hedge at (path, instrument, step) "
                          f"{first}", sig=sig0 + (kind,), desc=desc, cut=tc, poison=kind, first_diff=first,
                          before=h0[..., : tc + 1].reshape(-1)[:12], after=h1[..., : tc + 1].reshape(-1)[:12])
            break
        ctx.ok(mon, sig=sig0 + (kind,), trivial=(model_kind == "naked"))
    if k < 4:
        ctx.sample({"driver": "hedge", **desc, "T": T, "grad": grad, "stepwise": stepwise, "hedge_row0": h0[0, 0, :6]})


def all_features(rng, derivative):
    option = hasattr(derivative, "strike") and hasattr(derivative, "max_moneyness")
    feats = []
    for name in list_feature_names():
        if name in ("prev_hedge", "empty"):
            continue
        if name == "spot" and not derivative.is_listed:
            continue
        if not option and name in ("moneyness", "log_moneyness", "max_moneyness", "max_log_moneyness", "time_to_maturity", "expiry_time"):
            continue
        feats.append(name)
    feats += [UnderlierLogSpot(), Ones(), Barrier(float(rng.uniform(0.9, 1.1)), up=True), Barrier(float(rng.uniform(0.9, 1.1)), up=False)]
    if derivative.is_listed:
        feats.append(Spot(log=True))
    inner = ["underlier_spot", "volatility"] + (["max_log_moneyness", "time_to_maturity"] if option else [])
    lin = torch.nn.Linear(len(inner), 2)
    feats.append(ModuleOutput(lin, inputs=inner))
    return feats


def drv_features(ctx, k, rng):
    from pfhedge.features import get_feature

    dtype = pick(rng, [None, F64])
    stock = P.make_stock(rng, dtype=dtype)
    if k % 8 == 5:
        # deterministic coverage: a Heston stock far from the Feller condition (variance exactly zero on some paths before the end)
        from pfhedge.instruments import HestonStock

        stock = HestonStock(kappa=0.5, theta=0.01, sigma=1.2, rho=-0.6, dt=1 / 52, dtype=dtype)
        stock._pfv_kind = "heston"
    derivative = P.make_derivative(rng, stock, n_steps=int(pick(rng, [2, 3, 5, 9])) if k % 8 != 5 else 9, clauses=False)
    if derivative._pfv_kind in P.OPTIONS[:1] and rng.random() < 0.5:
        derivative.list(P.bs_pricer, cost=1e-3)
    n = int(pick(rng, [1, 3])) if k % 8 != 5 else 6
    derivative.simulate(n_paths=n)
    T = stock.spot.shape[1]
    if "variance" in dict(stock.named_buffers()) and bool((stock.variance[:, :-1] == 0).any()):
        ctx.branch("variance_exactly_zero_before_the_end")
    snap = snapshot(derivative)
    mon = "feature.prefix_invariant"
    for f in all_features(rng, derivative):
        f = get_feature(f)
        if isinstance(f, torch.nn.Module) and dtype is not None:
            f.to(dtype)
        ff = f.of(derivative)
        name = P.fname(f) if not isinstance(f, ModuleOutput) else "module_output"
        with torch.no_grad():
            base_all = ff.get(None).clone()
            base_one = [ff.get(i).clone() for i in range(T)]
            # steps counted from the end, where the feature accepts them (-k names step T-k; -1 is not accepted by the prefix statistics)
            base_neg = {}
            for i in range(T - 1):
                try:
                    base_neg[i] = ff.get(i - T).clone()
                except Exception:
                    pass
        for tc in range(T):
            kind = pick(rng, ["nan", "scale_up", "resample"])
            if name in ("spot", "log_spot") and kind == "nan":
                kind = "scale_up"  # the listed price comes from a Black-Scholes pricer, which rejects NaN inputs
            poison(snap, tc, kind, rng)
            try:
                with torch.no_grad():
                    ff2 = f.of(derivative)
                    one = ff2.get(tc)
                    allp = ff2.get(None)[:, : tc + 1]
                    neg = ff2.get(tc - T) if tc in base_neg else None
            finally:
                restore(snap)
            ctx.seen(mon)
            ok = bit_equal(one, base_one[tc]) and bit_equal(allp, base_all[:, : tc + 1])
            if neg is not None:
                ctx.branch("feature.step_counted_from_the_end")
                if ok and not bit_equal(neg, base_neg[tc]):
                    ctx.violation(mon, "feature_anticipation", f"feature {name}: get({tc - T}) (step {tc} of {T}) changes when columns > {tc} are poisoned ({kind})",
                                  sig=(name, kind, type(stock).__name__, "negative_step"), feature=name, cut=tc, poison=kind,
                                  before=base_neg[tc].reshape(-1)[:6], after=neg.reshape(-1)[:6], derivative=repr(derivative)[:120])
                    break
            if not ok:
                ctx.violation(mon, "feature_anticipation", f"feature {name}: get({tc}) or get(None)[:, :{tc + 1}] changes when columns > {tc} are "
                              f"poisoned ({kind})", sig=(name, kind, type(stock).__name__), feature=name, cut=tc, poison=kind,
                              before=base_one[tc].reshape(-1)[:6], after=one.reshape(-1)[:6], derivative=repr(derivative)[:120])
                break
            ctx.ok(mon, sig=(name, kind, type(stock).__name__, derivative._pfv_kind))
    if k < 3:
        ctx.sample({"driver": "features", "derivative": repr(derivative)[:150], "T": T})


DRIVERS = [
    ("hedge", 120, 5000, drv_hedge),
    ("features", 50, 2500, drv_features),
]
