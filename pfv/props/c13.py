"""C13 - the time grid matches maturity and step size.

Passive contract at the exit of BaseDerivative.simulate (every underlier, every buffer) and of every
primary's simulate(); active sweep over (dt, k) written in the ways users write maturities, plus
time_to_maturity / feature / payoff / hedge shapes on the same grid.
"""
import math
from fractions import Fraction

import numpy as np
import torch

from pfhedge.instruments import BaseDerivative
from pfhedge.instruments import BasePrimary
from pfhedge.instruments import BrownianStock
from pfhedge.instruments import CIRRate
from pfhedge.instruments import EuropeanOption
from pfhedge.instruments import HestonStock
from pfhedge.instruments import KouJumpStock
from pfhedge.instruments import LocalVolatilityStock
from pfhedge.instruments import MertonJumpStock
from pfhedge.instruments import RoughBergomiStock
from pfhedge.instruments import VasicekRate
from pfhedge.nn import Hedger
from pfhedge.nn import Naked

from .. import contracts
from .. import pipelines as P
from ..gen import F32, F64, pick

RULE = (
    "sweep: dt in {1/250,1/365,1/252,1/52,1/12,0.1,0.01,0.004} x k in 1..400 with the maturity written as k*dt, k/n, "
    "decimal literal, accumulated sum, and clearly non-integer ratios (k+0.5, k+-1e-6); 8 primaries x 4 option types; "
    "oracle T = round(r)+1 if the exact rational r=M/dt is within 16 ulp of an integer else ceil(r)+1 (ratios in the "
    "murky zone between 16 ulp and 1e-6 are never generated nor judged). distinct = distinct (primary, dt, way, k-class)"
)
ASSUMPTIONS = [
    "'within rounding distance of an integer' is read as: exact M/dt within 16 ulp (relative) of an integer",
    "time_to_maturity tolerance: 4 ulp of the maturity in the buffer dtype",
]
ANCHORS = ['pfhedge.instruments.derivative.base:BaseDerivative.simulate',
           'pfhedge.instruments.derivative.base:OptionMixin.time_to_maturity',
           'pfhedge.instruments.primary.brownian:BrownianStock.simulate',
           'pfhedge.instruments.primary.heston:HestonStock.simulate',
           'pfhedge.instruments.primary.cir:CIRRate.simulate',
           'pfhedge.instruments.primary.vasicek:VasicekRate.simulate',
           'pfhedge.instruments.primary.merton_jump:MertonJumpStock.simulate',
           'pfhedge.instruments.primary.kou_jump:KouJumpStock.simulate',
           'pfhedge.instruments.primary.rough_bergomi:RoughBergomiStock.simulate',
           'pfhedge.instruments.primary.local_volatility:LocalVolatilityStock.simulate']
PYTEST_WORKLOAD = True  # thorough tier also runs /repo/tests with these passive monitors attached (DESIGN.md 2.7)
DECIDING = ["grid.n_points", "grid.derivative_simulate", "ttm.values"]
REQUIRED_BRANCHES = ["maturity.product_rounds_below", "maturity_zero", "derivative.two_underliers", "resimulated_other_maturity", "ratio.integer", "ratio.non_integer", "ttm.negative_index"]

_CTX = None
PRIMS = ["brownian", "heston", "cir", "vasicek", "merton", "kou", "rbergomi", "localvol"]


def make_primary(kind, dt, dtype=None):
    kw = dict(dt=dt, dtype=dtype)
    return {
        "brownian": lambda: BrownianStock(**kw),
        "heston": lambda: HestonStock(**kw),
        "cir": lambda: CIRRate(**kw),
        "vasicek": lambda: VasicekRate(**kw),
        "merton": lambda: MertonJumpStock(**kw),
        "kou": lambda: KouJumpStock(**kw),
        "rbergomi": lambda: RoughBergomiStock(**kw),
        "localvol": lambda: LocalVolatilityStock(P.lv_sigma, **kw),
    }[kind]()


def expected_points(M, dt):
    """Returns (T, cls) with cls in integer / non_integer / murky."""
    r = Fraction(float(M)) / Fraction(float(dt))
    k = round(r)
    dev = abs(r - k)
    if dev <= Fraction(16, 2**52) * max(1, abs(r)):
        return k + 1, "integer", r
    if dev >= Fraction(1, 10**6):
        return math.ceil(r) + 1, "non_integer", r
    return None, "murky", r


def judge_points(ctx, mon, M, dt, shapes, sig, who):
    T, cls, r = expected_points(M, dt)
    if T is None or M < 0 or dt <= 0:
        ctx.ood(mon)
        return
    ctx.branch("ratio." + cls)
    bad = {n: s for n, s in shapes.items() if len(s) != 2 or s[1] != T}
    if not bad:
        ctx.ok(mon, sig=sig)
        return
    got = next(iter(bad.values()))
    key = "grid.n_points"
    fr = float(M) / float(dt)
    k = T - 1
    # the known defect is exactly: the documented expression ceil(time_horizon / dt + 1), evaluated in doubles, overshoots
    if (cls == "integer" and fr > k and math.ceil(fr + 1) == k + 2 and all(len(s) == 2 and s[1] == k + 2 for s in bad.values())
            and len(bad) == len(shapes)):
        key = "grid.float_ratio_above_integer"
    ctx.violation(mon, key, f"{who}: maturity {M!r} / dt {dt!r} (exact ratio {float(r)!r}, float ratio {fr!r}) gives "
                  f"{got[1] if len(got) == 2 else got} time points, expected {T}", sig=sig, maturity=M, dt=dt,
                  shapes={n: list(s) for n, s in shapes.items()}, expected=T, ratio_class=cls)


def _mk_dsim(orig):
    def simulate(self, n_paths=1, init_state=None):
        out = orig(self, n_paths=n_paths, init_state=init_state)
        ctx = _CTX
        if ctx is not None:
            mon = "grid.derivative_simulate"
            ctx.seen(mon)
            for ul in self.underliers():
                if not type(ul).__module__.startswith("pfhedge.") or not getattr(getattr(type(ul), "simulate", None), "__pfv_wrapped__", False):
                    ctx.ood(mon)  # a user / test double (or a monkey-patched simulate), not one of the library's primaries
                    continue
                shapes = {n: tuple(b.shape) for n, b in ul.named_buffers()}
                sig = (type(self).__name__, type(ul).__name__, float(ul.dt))
                judge_points(ctx, mon, self.maturity, ul.dt, shapes, sig, type(self).__name__ + ".simulate")
                if any(len(s) == 2 and s[0] != n_paths for s in shapes.values()):
                    ctx.violation(mon, "n_paths", f"buffers {shapes} for n_paths={n_paths}", sig=sig)
        return out

    return simulate


def _mk_psim(orig):
    def simulate(self, n_paths=1, time_horizon=20 / 250, init_state=None):
        out = orig(self, n_paths=n_paths, time_horizon=time_horizon, init_state=init_state)
        ctx = _CTX
        if ctx is not None and type(self).__module__.startswith("pfhedge."):
            mon = "grid.n_points"
            ctx.seen(mon)
            shapes = {n: tuple(b.shape) for n, b in self.named_buffers()}
            T, cls, r = expected_points(time_horizon, self.dt)
            kc = "k=1" if T == 2 else ("k<=5" if T and T <= 6 else "k>5")
            judge_points(ctx, mon, time_horizon, self.dt, shapes, (type(self).__name__, float(self.dt), cls, kc),
                         type(self).__name__ + ".simulate")
        return out

    return simulate


def setup(ctx):
    global _CTX
    _CTX = ctx
    contracts.wrap_method(BaseDerivative, "simulate", _mk_dsim)
    ctx.extra["primary_simulate_sites"] = contracts.wrap_method(BasePrimary, "simulate", _mk_psim)


DTS = [(1 / 250, 250), (1 / 365, 365), (1 / 252, 252), (1 / 52, 52), (1 / 12, 12), (0.1, 10), (0.01, 100), (0.004, 250)]


def write_maturity(rng, dt, n, k):
    way = pick(rng, ["k*dt", "k/n", "literal", "sum", "half", "plus", "minus"])
    if way == "k*dt":
        return k * dt, way, k
    if way == "k/n":
        return k / n, way, k
    if way == "literal":
        return float(repr(round(k * dt, 10))), way, k
    if way == "sum":
        s = 0.0
        for _ in range(k):
            s += dt
        return s, way, k
    if way == "half":
        return (k + 0.5) * dt, way, None
    if way == "plus":
        return (k + 1e-5) * dt, way, None
    return (k - 1e-5) * dt, way, None


class Spread(BaseDerivative):
    """A user derivative on two underliers (each must be simulated over the derivative's maturity on its own step size)."""

    def __init__(self, u1, u2, maturity):
        super().__init__()
        self.register_underlier("u1", u1)
        self.register_underlier("u2", u2)
        self.maturity = maturity

    def payoff_fn(self):
        return torch.relu(self.u1.spot[:, -1] - self.u2.spot[:, -1])


def drv_sweep(ctx, k, rng):
    dt, n = DTS[k % len(DTS)]
    kk = int(pick(rng, [1, 2, 3, 4, 5, 6, 7, 10, 20, 21, 30, 60, 125, 250, 400])) if rng.random() < 0.5 else int(rng.integers(1, 401))
    M, way, _ = write_maturity(rng, dt, n, kk)
    if ctx.tier == "quick":
        kinds = [pick(rng, ["brownian", "merton", "kou", "vasicek"]), pick(rng, PRIMS)]
    else:
        kinds = PRIMS
    if k % 12 == 3:
        # maturities of exactly k steps (written k/n) whose product k * dt rounds one ulp below them: every primary
        n_, kk = pick(rng, [(12, 7), (12, 31), (252, 33), (252, 37), (252, 41), (252, 57), (252, 74)])
        dt, n, M, way = 1 / n_, n_, kk / n_, "k/n (k*dt rounds below)"
        kinds = PRIMS if kk <= 60 else [x for x in PRIMS if x not in ("heston", "cir", "localvol")] + ["cir"]
        ctx.branch("maturity.product_rounds_below")
    if k % 12 == 7:
        # a contract observed at its maturity date (maturity 0): the grid is the single point t = 0
        kk, M, way = 0, 0.0, "zero"
        kinds = [x for x in PRIMS if x != "rbergomi"]  # (the rough-Bergomi generator has no single-point path: C11 finding)
        ctx.branch("maturity_zero")
    if kk > 120:
        kinds = [x for x in kinds if x not in ("heston", "cir", "localvol")] or ["brownian"]
    for kind in kinds:
        dtype = pick(rng, [None, F64])
        prim = make_primary(kind, dt, dtype)
        d = EuropeanOption(prim, maturity=M)
        d.simulate(n_paths=int(pick(rng, [1, 2])))  # judged by both passive contracts
    if kk <= 60 and rng.random() < 0.4:
        # every underlier of a multi-underlier derivative is simulated over the derivative's maturity (judged by the passive contract)
        dt2, _ = DTS[int(rng.integers(len(DTS)))]
        sp = Spread(make_primary(pick(rng, ["brownian", "merton", "kou"]), dt), make_primary(pick(rng, ["brownian", "heston", "vasicek"]), dt2), M)
        sp.simulate(n_paths=2)
        ctx.branch("derivative.two_underliers")
    if k < 6:
        ctx.sample({"driver": "sweep", "dt": dt, "k": kk, "way": way, "maturity": M, "primaries": kinds,
                    "points": list(prim.spot.shape)})


def drv_ttm(ctx, k, rng):
    """time_to_maturity(i), (None), negative indices, shapes of features / payoff / hedge on the same grid."""
    dt, n = DTS[int(rng.integers(len(DTS)))]
    kk = int(pick(rng, [1, 2, 3, 5, 20, 37, 100]))
    M, way, _ = write_maturity(rng, dt, n, kk)
    dtype = pick(rng, [None, F64])
    stock = P.make_stock(rng, pick(rng, ["brownian", "merton", "kou", "heston"] if kk <= 40 else ["brownian", "merton"]), dtype=dtype, dt=dt)
    d = P.make_derivative(rng, stock, pick(rng, P.OPTIONS), maturity=M)
    N = int(pick(rng, [1, 3]))
    d.simulate(n_paths=N)
    T = stock.spot.shape[1]
    Texp, cls, r = expected_points(M, dt)
    mon = "ttm.values"
    ctx.seen(mon)
    bdt = stock.spot.dtype
    e = float(torch.finfo(bdt).eps)
    full = d.time_to_maturity()
    sig = (type(d).__name__, str(bdt), dt, "T<=3" if T <= 3 else "T>3")
    tol = 4 * e * (T - 1) * dt + 1e-300
    want = torch.tensor([(T - 1 - i) * dt for i in range(T)], dtype=F64)
    ok = full.shape == (N, T) and full.dtype == bdt
    why = f"time_to_maturity() shape {tuple(full.shape)} dtype {full.dtype}, expected {(N, T)} {bdt}"
    if ok:
        f64 = full.to(F64)
        if not bool(((f64 - want).abs() <= tol).all()):
            ok, why = False, "time_to_maturity() != (T-1-i)*dt"
        elif not bool((f64[:, -1] == 0).all()):
            ok, why = False, "time to maturity at the last step is not exactly 0"
        elif T > 1 and not bool((f64[:, 1:] < f64[:, :-1]).all()):
            ok, why = False, "time to maturity not strictly decreasing"
        elif not bool((full == full[:1]).all()):
            ok, why = False, "time to maturity differs between paths"
    if ok:
        idx = sorted({0, T - 1, int(rng.integers(T)), int(rng.integers(T))})
        for i in idx:
            one = d.time_to_maturity(i)
            if one.shape != (N, 1) or abs(float(one[0, 0]) - (T - 1 - i) * dt) > tol or (i == T - 1 and float(one[0, 0]) != 0.0):
                ok, why = False, f"time_to_maturity({i}) = {one.flatten()[:2].tolist()} expected {(T - 1 - i) * dt}"
                break
            ctx.branch("ttm.negative_index")
            neg = d.time_to_maturity(i - T)
            if not torch.equal(neg, one):
                ok, why = False, f"time_to_maturity({i - T}) != time_to_maturity({i})"
                break
    ctx.check(mon, ok, "ttm", why, sig=sig, maturity=M, dt=dt, T=T, got=full[0] if full.dim() == 2 else full)
    # same grid for payoff, features, hedge
    mon = "grid.consumers"
    ctx.seen(mon)
    hedger = Hedger(Naked(), ["log_moneyness", "time_to_maturity", "volatility", "max_moneyness"])
    hedge = hedger.compute_hedge(d)
    feats = hedger.get_input(d, None)
    pay = d.payoff()
    ok = hedge.shape == (N, 1, T) and feats.shape == (N, T, 4) and pay.shape == (N,) and hedger.get_input(d, T - 1).shape == (N, 1, 4)
    ctx.check(mon, ok, "consumer_shapes", f"hedge {tuple(hedge.shape)}, features {tuple(feats.shape)}, payoff {tuple(pay.shape)} for N={N}, T={T}",
              sig=sig)
    # steps counted from the end ("negative indices where accepted"): an accessor that accepts -k answers for step T-k of this same grid
    mon2 = "grid.steps_from_the_end"
    for nm in ("moneyness", "log_moneyness", "max_moneyness", "max_log_moneyness"):
        if not hasattr(d, nm):
            continue
        for kk_ in sorted({1, 2, T}):
            if kk_ > T:
                continue
            try:
                neg = getattr(d, nm)(-kk_)
            except Exception:
                continue  # not accepted
            ctx.seen(mon2)
            pos = getattr(d, nm)(T - kk_)
            ctx.check(mon2, neg.shape == pos.shape == (N, 1) and bool(((neg == pos) | (torch.isnan(neg) & torch.isnan(pos))).all()), "step_from_the_end",
                      f"{nm}({-kk_}) has shape {tuple(neg.shape)} / differs from {nm}({T - kk_}) (T={T}): not the value at step T-{kk_} of the grid", sig=(nm, kk_ == 1))
    # the same stock under a second option of another maturity (same path count): every consumer must move to the new grid
    k2 = int(pick(rng, [1, 2, 4, 7, 11]))
    d2 = P.make_derivative(rng, stock, pick(rng, P.OPTIONS), maturity=k2 * dt)
    _ = stock.volatility, stock.variance
    d2.simulate(n_paths=N)
    T2 = stock.spot.shape[1]
    ctx.seen(mon)
    hedge2 = hedger.compute_hedge(d2)
    feats2 = hedger.get_input(d2, None)
    ok2 = (hedge2.shape == (N, 1, T2) and feats2.shape == (N, T2, 4) and stock.volatility.shape == (N, T2) and stock.variance.shape == (N, T2)
           and d2.time_to_maturity().shape == (N, T2) and d2.payoff().shape == (N,))
    ctx.check(mon, ok2, "consumer_shapes_after_resimulation", f"after re-simulating the same stock for a maturity of {k2} steps (was {T - 1}): hedge {tuple(hedge2.shape)}, "
              f"features {tuple(feats2.shape)}, volatility {tuple(stock.volatility.shape)} for N={N}, T={T2}", sig=sig + ("resim",))
    ctx.branch("resimulated_other_maturity")
    if k < 3:
        ctx.sample({"driver": "ttm", "dt": dt, "maturity": M, "T": T, "ttm_row0": full[0]})


def drv_witness(ctx, k, rng):
    """Fixed witness of the known finding grid.float_ratio_above_integer."""
    d = EuropeanOption(BrownianStock(dt=1 / 12), maturity=5 / 12)
    d.simulate(n_paths=1)


DRIVERS = [
    ("witness", 1, 1, drv_witness),
    ("sweep", 1200, 40000, drv_sweep),
    ("ttm", 200, 6000, drv_ttm),
]
