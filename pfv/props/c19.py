"""C19 - bisection and implied volatility invert monotone functions to precision.

Passive postcondition on every call of bisect (all aliases; so the calls made by quadratic_cvar,
HedgeLoss.cash and implied_volatility are judged as well) with the monitored function wrapped to count
evaluations; active drivers with analytic monotone functions (closed-form inverse) and with the
implied volatility of the four pricing modules.
"""
import math

import numpy as np
import torch

import pfhedge._utils.bisect as B
from pfhedge.nn import BSAmericanBinaryOption
from pfhedge.nn import BSEuropeanBinaryOption
from pfhedge.nn import BSEuropeanOption
from pfhedge.nn import BSLookbackOption
from pfhedge.nn import EntropicRiskMeasure
from pfhedge.nn import IsoelasticLoss
from pfhedge.nn import QuadraticCVaR

from .. import contracts
from ..gen import F32, F64, pick, t

RULE = (
    "analytic driver: {affine, exp, logistic, cubic, sqrt} x {increasing, decreasing} x per-element random slopes/offsets x scalar / "
    "tensor / broadcast brackets x targets (uniform in range, within 1e-9 of either end) x shapes (), (n), (n,m) x precision 1e-3..1e-12 "
    "x f32/f64 (closed-form inverse as oracle); unreachable precision / tiny max_iter must raise RuntimeError; implied volatility: sigma "
    "in [0.002,0.99] x moneyness/maturity/strike/running max for the four modules (European binary only on batches where its price is "
    "monotone on the bracket). Passive: every bisect call (incl. those made by quadratic_cvar and HedgeLoss.cash) judged by the "
    "bracketing condition on the real fn. distinct = (function family, direction, shape, bracket kind, precision class, dtype)"
)
ASSUMPTIONS = [
    "a call is in domain when fn is monotone on the bracket and every target lies within [fn(lower), fn(upper)] (checked on the real fn)",
    "root within precision + 4 ulp(|x|) + the resolution of fn around the target (8 eps (|fn|+|target|) translated through the local slope)",
    "implied volatility: |iv - sigma| <= 2 precision only where price(sigma +- precision) strictly bracket the quoted price; otherwise "
    "price(iv) must reproduce the quoted price to price resolution",
]
ANCHORS = ['pfhedge._utils.bisect:bisect',
           'pfhedge._utils.bisect:find_implied_volatility']
PYTEST_WORKLOAD = True  # thorough tier also runs /repo/tests with these passive monitors attached (DESIGN.md 2.7)
DECIDING = ["iv.from_derivative_is_explicit", "bisect.post", "bisect.analytic", "bisect.abort", "iv.european", "iv.american_binary", "iv.lookback", "iv.european_binary"]
REQUIRED_BRANCHES = ["iv.custom_bracket", "iv.derivative.running_max_above_spot", "abort.exact_budget", "abort.budget_minus_one", "abort.zero_budget_narrow", "bisect.decreasing", "bisect.increasing", "bisect.tensor_bracket", "bisect.from.quadratic_cvar", "bisect.from.cash",
                     "bisect.from.implied_volatility"]

_CTX = None
_DEPTH = [0]
_JUDGING = [0]
_LAST = {}


def _origin():
    import sys

    f = sys._getframe(2)
    for _ in range(8):
        if f is None:
            break
        n = f.f_code.co_name
        if n in ("quadratic_cvar", "cash", "find_implied_volatility"):
            return {"quadratic_cvar": "quadratic_cvar", "cash": "cash", "find_implied_volatility": "implied_volatility"}[n]
        f = f.f_back
    return "direct"


def _mk_bisect(orig):
    def bisect(fn, target, lower, upper, precision=1e-6, max_iter=100000):
        ctx = _CTX
        if ctx is None:
            return orig(fn, target, lower, upper, precision=precision, max_iter=max_iter)
        count = [0]

        def counted(x):
            if not _JUDGING[0]:  # evaluations made by the oracle of a nested call (decreasing fn: bisect recurses on -fn) are not the library's
                count[0] += 1
            return fn(x)

        nested = _DEPTH[0] > 0
        stamps = [(nm, z, z._version, z.detach().clone()) for nm, z in (("lower", lower), ("upper", upper), ("target", target)) if isinstance(z, torch.Tensor)]
        _DEPTH[0] += 1
        try:
            out = orig(counted, target, lower, upper, precision=precision, max_iter=max_iter)
            err = None
        except RuntimeError as ex:
            out, err = None, ex
        finally:
            _DEPTH[0] -= 1
        for nm, z, ver, val in stamps:
            if z._version != ver or not torch.equal(z.detach(), val):
                ctx.seen("bisect.args_untouched")
                ctx.violation("bisect.args_untouched", "bisect.argument_mutated", f"bisect modified its '{nm}' tensor argument in place", sig=(nm,))
                break
        else:
            if stamps:
                ctx.ok("bisect.args_untouched", sig=("ok",))
        mon = "bisect.post"
        ctx.seen(mon)
        _LAST["n_eval"] = count[0]
        if not nested:
            ctx.branch("bisect.from." + _origin())
        _JUDGING[0] += 1
        try:
            _judge(ctx, mon, fn, target, lower, upper, precision, max_iter, out, err, count[0], nested)
        except Exception as ex:
            from ..core import HarnessError

            raise HarnessError(f"bisect oracle failed: {ex!r}")
        finally:
            _JUDGING[0] -= 1
        if err is not None:
            raise err
        return out

    return bisect


def _judge(ctx, mon, fn_real, target, lower, upper, precision, max_iter, out, err, n_eval, nested):
    def fn(x):
        # the oracle evaluates the caller's function in the default (grad-enabled) mode, as the caller's code would, and keeps no graph
        with torch.enable_grad():
            return fn_real(x).detach()

    with torch.no_grad():
        lo0, up0 = torch.as_tensor(lower), torch.as_tensor(upper)
        if lo0.numel() > 1 or up0.numel() > 1:
            ctx.branch("bisect.tensor_bracket")
        f_lo, f_up = fn(lo0), fn(up0)
        tgt = torch.as_tensor(target)
        try:
            f_lo_b, f_up_b, tgt_b = torch.broadcast_tensors(f_lo, f_up, tgt)
        except RuntimeError:
            ctx.ood(mon)
            return
        inc = bool((f_lo_b <= f_up_b).all())
        dec = bool((f_lo_b >= f_up_b).all())
        if not (inc or dec) or not (torch.isfinite(f_lo_b).all() and torch.isfinite(f_up_b).all() and torch.isfinite(tgt_b).all()):
            ctx.ood(mon)
            return
        if bool((f_lo_b > f_up_b).all()):
            direction = "decreasing"
        elif inc:
            direction = "increasing"
        else:
            ctx.ood(mon)  # mixed strict/flat directions: the library's all()-test is undefined for it
            return
        ctx.branch("bisect." + direction)
        lo_t = torch.minimum(f_lo_b, f_up_b)
        hi_t = torch.maximum(f_lo_b, f_up_b)
        if not bool(((tgt_b >= lo_t) & (tgt_b <= hi_t)).all()):
            ctx.ood(mon)
            return
        dtype = out.dtype if out is not None else (lo0.dtype if lo0.dtype.is_floating_point else torch.get_default_dtype())
        # python-float bracket ends become float32 tensors (torch.as_tensor), so a float64 problem is searched in float32
        f32_regime = (not isinstance(lower, torch.Tensor) or not isinstance(upper, torch.Tensor)) and f_lo.dtype == F64 and lo0.dtype == F32
        e = float(torch.finfo(dtype).eps) if dtype.is_floating_point else 1e-7
        width = float((up0 - lo0).abs().max())
        scale = float(torch.maximum(lo0.abs(), up0.abs()).max())
        need = math.ceil(math.log2(max(width / precision, 1.0))) + 1 if precision > 0 else math.inf
        resolvable = precision > 4 * e * scale
        sig = (direction, "nested" if nested else "top", "tb" if (lo0.numel() > 1 or up0.numel() > 1) else "sb",
               "p<1e-8" if precision < 1e-8 else "p>=1e-8", str(dtype), min(tgt_b.dim(), 2))
        if n_eval > max_iter + 8:
            ctx.violation(mon, "too_many_evaluations", f"bisect evaluated fn {n_eval} times with max_iter={max_iter}", sig=sig)
            return
        if err is not None:
            if f32_regime and precision > 4 * float(torch.finfo(F64).eps) * scale and need <= max_iter and not resolvable:
                ctx.violation(mon, "bisect.python_float_bracket_searched_in_float32", f"bisect raised {err}: precision {precision} is reachable in "
                              f"float64 but the python-float bracket made the search run in float32", sig=sig, precision=precision)
            elif resolvable and need <= max_iter:
                ctx.violation(mon, "spurious_abort", f"bisect raised {err} although precision {precision} is reachable in {need} iterations "
                              f"(width {width}, dtype {dtype})", sig=sig, width=width, precision=precision, max_iter=max_iter)
            else:
                ctx.ok(mon, sig=sig + ("abort",))
            return
        # bracketing condition on the real fn, direction aware
        x = out
        try:
            xb, lob, upb = torch.broadcast_tensors(x, lo0.to(x), up0.to(x))
        except RuntimeError:
            ctx.violation(mon, "shape", f"output shape {tuple(x.shape)} not broadcastable with the bracket", sig=sig)
            return
        ulp = 4 * e * xb.abs() + float(torch.finfo(dtype).tiny)
        if not bool(((xb >= lob - ulp) & (xb <= upb + ulp)).all()):
            ctx.violation(mon, "outside_bracket", "bisect returned a point outside [lower, upper]", sig=sig, x=x, lower=lower, upper=upper)
            return
        sgn = 1.0 if direction == "increasing" else -1.0
        # bisect searches element by element: its contract presupposes that fn acts elementwise.  A caller that hands it a reduction (HedgeLoss.cash's
        # default search passes the loss itself, which averages over the first dimension) is outside this property's domain - that call is judged by C06.
        fx0 = fn(x)
        if x.numel() > 1:
            x2 = x.clone()
            x2.reshape(-1)[0] = lob.reshape(-1)[0] if float(x.reshape(-1)[0]) != float(lob.reshape(-1)[0]) else upb.reshape(-1)[0]
            fx2 = fn(x2)
            if fx0.shape != x.shape or fx2.shape != fx0.shape or not torch.equal(fx2.reshape(-1)[1:], fx0.reshape(-1)[1:]):
                ctx.ood(mon)
                ctx.note("fn_not_elementwise:" + _origin())
                return
        fx = fx0 * sgn
        tg = tgt_b * sgn
        step = precision + ulp
        x_lo = torch.maximum(xb - step, lob)
        x_hi = torch.minimum(xb + step, upb)
        f_xlo = fn(x_lo) * sgn
        f_xhi = fn(x_hi) * sgn
        # resolution of fn around x, measured (fn may be computed with cancellation, e.g. 1 - ncdf)
        # fn is monotone only up to its own rounding noise: sample it across [x - step, x + step] and take the largest
        # violation of monotonicity among the samples as the noise level
        samples = torch.stack([fn(torch.minimum(torch.maximum(xb - step + j * step / 4, lob), upb)) * sgn for j in range(9)])
        noise = (samples.cummax(0).values - samples).amax(0)
        # staircase functions (e.g. float32 ncdf = 0.5 (1 + erf) in the far tail: quantum ~3e-8 on values of 3e-6): few distinct levels among
        # the 9 samples; the quantum is then the resolution of fn there
        srt = samples.sort(0).values
        levels = 1 + (srt[1:] != srt[:-1]).sum(0)
        quantum = (srt[-1] - srt[0]) / (levels - 1).clamp(min=1)
        noise = torch.maximum(noise, torch.where(levels <= 6, quantum, torch.zeros_like(quantum)))
        # rounding jumps riding on a smooth trend: the largest increment between neighbouring samples minus the typical (median) increment
        inc = (samples[1:] - samples[:-1]).abs()
        noise = torch.maximum(noise, inc.amax(0) - inc.median(0).values)
        # floor: a function assembled from terms as large as its values at the bracket ends cannot be resolved below eps times that scale
        # (an early bisection step whose midpoint value is within that noise of the target may go the wrong way)
        noise = torch.maximum(noise, 4 * e * torch.maximum(f_lo_b.abs(), f_up_b.abs()).to(noise.dtype))
        flat = levels == 1
        ftol = 8 * e * (fx.abs() + tg.abs()) + 16 * noise + float(torch.finfo(dtype).tiny)
        # a root r (fn(r) = target) exists within [x - step, x + step]: fn(x - step) <= target <= fn(x + step)
        ok = (f_xlo <= tg + ftol) & (f_xhi >= tg - ftol)
        if bool(flat.any()):
            ctx.skipped(mon, "fn_flat_at_float_resolution_around_result", int(flat.sum()))
            ok = ok | flat
        if not bool(ok.all()) and f32_regime:
            step32 = step + 8 * float(torch.finfo(F32).eps) * max(scale, 1e-30)
            ok32 = (fn(torch.maximum(xb - step32, lob - step32)) * sgn <= tg + ftol) & (fn(torch.minimum(xb + step32, upb + step32)) * sgn >= tg - ftol)
            if bool(ok32.all()):
                ctx.violation(mon, "bisect.python_float_bracket_searched_in_float32", f"root only within float32 resolution of the returned point "
                              f"(precision {precision}, output dtype {x.dtype}): python-float bracket ends are converted to float32 tensors",
                              sig=sig, precision=precision, lower=lower, upper=upper)
                return
        if not bool(ok.all()):
            i = int((~ok).reshape(-1).nonzero()[0, 0])
            ctx.violation(mon, "root_not_within_precision", f"no root of fn within precision {precision} of the returned point "
                          f"(element {i}: x={float(xb.reshape(-1)[i])!r}, fn(x-p)={float((f_xlo * sgn).reshape(-1)[i])!r}, "
                          f"fn(x+p)={float((f_xhi * sgn).reshape(-1)[i])!r}, target={float(tgt_b.reshape(-1)[i])!r}, {direction})",
                          sig=sig, precision=precision, lower=lower, upper=upper, target=target, output=x)
            return
        ctx.ok(mon, sig=sig)


def setup(ctx):
    global _CTX
    _CTX = ctx
    ctx.extra["binding_sites"] = contracts.wrap_function("pfhedge._utils.bisect", "bisect", _mk_bisect)


# ---- analytic driver --------------------------------------------------------------------------
def family(rng, shape, dtype):
    name = pick(rng, ["affine", "exp", "logistic", "cubic", "sqrt", "gradient_of_potential"])
    a = t(rng.uniform(0.3, 3.0, shape), dtype)
    b = t(rng.uniform(-1.0, 1.0, shape), dtype)
    sgn = -1.0 if rng.random() < 0.5 else 1.0
    if name == "affine":
        f = lambda x: sgn * (a * x + b)  # noqa: E731
        inv = lambda y: (sgn * y - b) / a  # noqa: E731
        dom = (-3.0, 3.0)
    elif name == "exp":
        f = lambda x: sgn * (torch.exp(a * x) + b)  # noqa: E731
        inv = lambda y: torch.log(sgn * y - b) / a  # noqa: E731
        dom = (-2.0, 2.0)
    elif name == "logistic":
        f = lambda x: sgn * (torch.sigmoid(a * x) + b)  # noqa: E731
        inv = lambda y: torch.logit(sgn * y - b) / a  # noqa: E731
        dom = (-3.0, 3.0)
    elif name == "cubic":
        f = lambda x: sgn * (a * x.pow(3) + x + b)  # noqa: E731
        inv = None
        dom = (-2.0, 2.0)
    elif name == "gradient_of_potential":
        # a monotone function that is itself obtained by automatic differentiation (the gradient of a convex potential, as a delta is of a price):
        # bisect must be able to invert it
        def f(x):
            # (no enable_grad of its own: like a user's function it relies on the gradient mode the caller - here bisect - runs it in)
            z = (x.detach() + torch.zeros_like(a)).clone().requires_grad_()  # elementwise also for a scalar x: one coordinate per element
            pot = (a * z.square() / 2 + torch.nn.functional.softplus(z) + b * z).sum()
            return sgn * torch.autograd.grad(pot, z)[0]

        inv = None
        dom = (-3.0, 3.0)
    else:
        f = lambda x: sgn * (a * torch.sqrt(x) + b)  # noqa: E731
        inv = lambda y: ((sgn * y - b) / a).square()  # noqa: E731
        dom = (0.01, 9.0)
    return name, sgn, f, inv, dom


def drv_analytic(ctx, k, rng):
    dtype = pick(rng, [F32, F64, F64])
    shape = pick(rng, [(), (5,), (3, 4)])
    name, sgn, f, inv, dom = family(rng, shape, dtype)
    bk = pick(rng, ["scalar", "scalar", "tensor", "bcast"])
    if bk == "scalar" or shape == ():
        lo, up = float(dom[0] + rng.uniform(0, 0.3)), float(dom[1] - rng.uniform(0, 0.3))
        lo_t, up_t = torch.full(shape, lo, dtype=dtype), torch.full(shape, up, dtype=dtype)
        if rng.random() < 0.5:
            lo, up = torch.tensor(lo, dtype=dtype), torch.tensor(up, dtype=dtype)
    else:
        bshape = shape if bk == "tensor" else shape[-1:]
        mid = (dom[0] + dom[1]) / 2
        lo = t(dom[0] + rng.uniform(0, (mid - dom[0]) * 0.8, bshape), dtype)
        up = t(dom[1] - rng.uniform(0, (dom[1] - mid) * 0.8, bshape), dtype)
        lo_t, up_t = lo.expand(shape), up.expand(shape)
    e = float(torch.finfo(dtype).eps)
    tk = pick(rng, ["inside", "inside", "near_lower", "near_upper", "mixed"])
    u = rng.uniform(0.02, 0.98, shape)
    if tk == "near_lower":
        u = np.full(shape, 1e-9) if dtype == F64 else np.full(shape, 1e-5)
    elif tk == "near_upper":
        u = np.full(shape, 1 - 1e-9) if dtype == F64 else np.full(shape, 1 - 1e-5)
    elif tk == "mixed" and shape != ():
        u = np.where(rng.random(shape) < 0.5, 1e-6, 1 - 1e-6)
    xr = lo_t + t(u, dtype) * (up_t - lo_t)  # the true root
    target = f(xr)
    pcls = pick(rng, [1e-3, 1e-6, 1e-6, 1e-9, 1e-12]) if dtype == F64 else pick(rng, [1e-3, 1e-5])
    precision = float(pcls)
    mon = "bisect.analytic"
    ctx.seen(mon)
    try:
        out = B.bisect(f, target, lo, up, precision=precision, max_iter=300)  # the passive postcondition judges this call too
    except RuntimeError as ex:
        if "max_iter" in str(ex):
            return  # judged (abort legitimate or not) by the passive postcondition
        raise
    # direct comparison with the known root: |x - r| <= precision + rounding of fn near the root
    slope = (f(xr + 1e-3) - f(xr - 1e-3)).abs() / 2e-3
    noise = 16 * e * (target.abs() + 1) / slope.clamp(min=1e-6)
    okshape = out.shape == torch.broadcast_shapes(tuple(shape), torch.as_tensor(lo).shape)
    ok = okshape and bool(((out - xr).abs() <= precision + 8 * e * xr.abs() + noise).all())
    key = "analytic_root"
    if not ok and okshape and not isinstance(lo, torch.Tensor) and dtype == F64:
        if bool(((out - xr).abs() <= precision + 16 * float(torch.finfo(F32).eps) * max(abs(dom[0]), abs(dom[1])) + noise).all()):
            key = "bisect.python_float_bracket_searched_in_float32"
    ctx.check(mon, ok, key, f"bisect({name}, {'decreasing' if sgn < 0 else 'increasing'}) returned a point farther than "
              f"precision {precision} from the true root", sig=(name, sgn, len(shape), bk, tk, precision, str(dtype)), root=xr, output=out,
              target=target, lower=lo, upper=up, precision=precision)
    if k < 5:
        ctx.sample({"driver": "analytic", "family": name, "direction": sgn, "shape": list(shape), "bracket": bk, "targets": tk,
                    "precision": precision, "dtype": str(dtype), "root": xr, "output": out})


def drv_abort(ctx, k, rng):
    """Unreachable precision or too small max_iter must raise RuntimeError after at most max_iter(+3) evaluations."""
    dtype = pick(rng, [F32, F64])
    mon = "bisect.abort"
    ctx.seen(mon)
    count = [0]
    a = float(rng.uniform(0.5, 2))

    def f(x):
        count[0] += 1
        return a * x

    mode = pick(rng, ["unreachable", "max_iter", "exact_budget", "exact_budget", "budget_minus_one", "zero_budget_narrow"])
    if mode in ("exact_budget", "budget_minus_one", "zero_budget_narrow"):
        # dyadic bracket: the width after j halvings is exactly 2^-j, so the number of iterations needed for precision 1.3 * 2^-j is exactly j.
        # Documented: abort only if the number of iterations *exceeds* max_iter.
        ctx.branch("abort." + mode)
        j = int(pick(rng, [1, 5, 12, 20])) if mode != "zero_budget_narrow" else 0
        lo, up = torch.tensor(0.0, dtype=dtype), torch.tensor(1.0, dtype=dtype)
        precision = 1.3 * 2.0 ** -j
        max_iter = j if mode != "budget_minus_one" else j - 1
        dec = bool(rng.random() < 0.5)
        g = (lambda x: (count.__setitem__(0, count[0] + 1), -a * x)[1]) if dec else f
        target = torch.tensor((-a if dec else a) * 0.37, dtype=dtype)
        try:
            out = B.bisect(g, target, lo, up, precision=precision, max_iter=max_iter)
            ok = mode != "budget_minus_one" and abs(float(out) - 0.37) <= precision * (1 + 1e-6)
            why = f"bisect returned {float(out)!r} (root 0.37, precision {precision}, max_iter {max_iter}, {j} halvings needed, mode {mode})"
        except RuntimeError as ex:
            ok = mode == "budget_minus_one"
            why = f"bisect raised '{ex}' although {j} iterations reach precision {precision} on [0, 1] and max_iter={max_iter} allows them"
        ctx.check(mon, ok, "iteration_budget", why, sig=(mode, str(dtype), j, dec), precision=precision, max_iter=max_iter, halvings_needed=j)
        return
    if mode == "unreachable":
        lo, up = torch.tensor(1000.0, dtype=dtype), torch.tensor(1001.0, dtype=dtype)
        precision, max_iter = (1e-9 if dtype == F32 else 1e-16), int(pick(rng, [50, 200, 1000]))
    else:
        lo, up = torch.tensor(0.0, dtype=dtype), torch.tensor(1.0, dtype=dtype)
        precision, max_iter = 1e-5, int(pick(rng, [1, 3, 10]))
    target = torch.tensor(a * float(lo + 0.37 * (up - lo)), dtype=dtype)
    try:
        out = B.bisect(f, target, lo, up, precision=precision, max_iter=max_iter)
        ok, why = False, f"bisect returned {float(out)!r} instead of raising (mode {mode}, precision {precision}, max_iter {max_iter})"
    except RuntimeError:
        ne = _LAST.get("n_eval", count[0])
        ok, why = ne <= max_iter + 3, f"fn evaluated {ne} times before the abort with max_iter={max_iter}"
    ctx.check(mon, ok, "abort", why, sig=(mode, str(dtype), max_iter), precision=precision, max_iter=max_iter, evaluations=_LAST.get("n_eval"))


def drv_callers(ctx, k, rng):
    """The library's own bisect users, so that the passive postcondition sees their calls."""
    dtype = F64
    x = t(rng.standard_normal((int(pick(rng, [5, 50])),)) * float(pick(rng, [0.5, 2.0])), dtype)
    QuadraticCVaR(float(pick(rng, [1.0, 5.0])))(x)
    IsoelasticLoss(float(pick(rng, [0.5, 1.0]))).cash(x.abs() + 0.1)


def drv_iv(ctx, k, rng):
    dtype = pick(rng, [F32, F64, F64])
    n = 8
    kind = pick(rng, ["european", "american_binary", "lookback", "european_binary"])
    K = float(pick(rng, [1.0, 1.0, 0.7, 1.6]))
    sig = t(rng.uniform(0.002, 0.99, n), dtype)
    tt = t(10 ** rng.uniform(-1.5, 0.5, n), dtype)
    precision = float(pick(rng, [1e-6, 1e-6, 1e-4, 1e-8])) if dtype == F64 else float(pick(rng, [1e-4, 1e-5]))
    lo_b, up_b = 0.001, 1.0
    if kind == "european":
        call = bool(rng.random() < 0.5)
        s = t(rng.uniform(-0.4, 0.4, n), dtype)
        m = BSEuropeanOption(call=call, strike=K)
        if rng.random() < 0.3:
            # the search itself with a caller-chosen bracket and iteration budget
            lo_b, up_b = float(pick(rng, [0.01, 0.05])), float(pick(rng, [2.0, 3.0]))
            sig = t(rng.uniform(lo_b * 1.1, up_b * 0.98, n), dtype)
            ctx.branch("iv.custom_bracket")
        price = m.price(s, tt, sig)
        pf = lambda v: m.price(s, tt, v)  # noqa: E731
        if up_b != 1.0:
            iv = B.find_implied_volatility(m.price, price, lower=lo_b, upper=up_b, precision=precision, max_iter=int(pick(rng, [60, 100, 1000])),
                                           log_moneyness=s, time_to_maturity=tt)
        else:
            iv = m.implied_volatility(s, tt, price, precision=precision)
    elif kind == "european_binary":
        call = bool(rng.random() < 0.5)
        if rng.random() < 0.5:
            s = t(rng.uniform(0.05, 0.5, n), dtype)  # ITM call: price decreasing in sigma on the whole bracket
        else:
            s = -(tt / 2 + t(rng.uniform(0.05, 0.5, n), dtype))  # s < -t/2: increasing on sigma in (0, 1]
        m = BSEuropeanBinaryOption(call=call, strike=K)
        price = m.price(s, tt, sig)
        pf = lambda v: m.price(s, tt, v)  # noqa: E731
        iv = m.implied_volatility(s, tt, price, precision=precision)
    else:
        s = t(rng.uniform(-0.5, -0.01, n), dtype)
        mx = s + t(rng.uniform(0, 1, n), dtype) * (-s) * 0.95  # running max below the strike (price still depends on sigma)
        if kind == "lookback" and rng.random() < 0.5:
            mx = s + t(rng.uniform(0, 0.6, n), dtype)
        m = (BSAmericanBinaryOption if kind == "american_binary" else BSLookbackOption)(strike=K)
        price = m.price(s, mx, tt, sig)
        pf = lambda v: m.price(s, mx, tt, v)  # noqa: E731
        iv = m.implied_volatility(s, mx, tt, price, precision=precision)
    mon = "iv." + kind
    ctx.seen(mon)
    e = float(torch.finfo(dtype).eps)
    with torch.no_grad():
        p_lo = pf((sig - precision).clamp(min=lo_b))
        p_hi = pf((sig + precision).clamp(max=up_b))
        pscale0 = (K * (1 + s.exp())) if kind in ("european", "lookback") else torch.ones_like(s)
        gap = 64 * e * pscale0  # the price must move by clearly more than its own rounding noise over one precision step
        strictly = ((p_lo < price - gap) & (price + gap < p_hi)) | ((p_lo > price + gap) & (price - gap > p_hi))
        inb = (sig >= lo_b + precision) & (sig <= up_b - precision)
        close_sigma = (iv - sig).abs() <= 2 * precision + 8 * e
        p_iv = pf(iv)
        pscale = (K * (1 + s.exp())) if kind in ("european", "lookback") else torch.ones_like(s)
        reproduces = (p_iv - price).abs() <= 64 * e * pscale + (p_hi - p_lo).abs() * 2
        ok = torch.where(strictly & inb, close_sigma, reproduces | ~inb)
    if int((~(strictly & inb)).sum()):
        ctx.skipped(mon, "flat_price_in_sigma_or_outside_bracket", int((~(strictly & inb)).sum()))
    if bool(ok.all()):
        ctx.ok(mon, sig=(kind, str(dtype), precision, K == 1.0), n=int((strictly & inb).sum()) or 1)
    else:
        i = int((~ok).nonzero()[0, 0])
        ctx.violation(mon, "implied_volatility", f"{kind}: implied volatility {float(iv[i])!r} for a price generated with sigma {float(sig[i])!r} "
                      f"(precision {precision}, strictly monotone there: {bool(strictly[i])})", sig=(kind, str(dtype), precision),
                      sigma=sig[i], iv=iv[i], log_moneyness=s[i], time_to_maturity=tt[i], strike=K, price=price[i])
    if k < 3:
        ctx.sample({"driver": "iv", "kind": kind, "dtype": str(dtype), "precision": precision, "sigma": sig[:3], "iv": iv[:3]})


def drv_iv_derivative(ctx, k, rng):
    """implied_volatility of a module built from a derivative: omitted arguments are the derivative's own (spot, running maximum, time to maturity)."""
    from pfhedge.instruments import AmericanBinaryOption, BrownianStock, EuropeanBinaryOption, EuropeanOption, LookbackOption

    dtype = pick(rng, [None, F64])
    kind = pick(rng, ["european", "american_binary", "lookback", "european_binary"])
    K = float(pick(rng, [1.0, 0.9, 1.1]))
    sig0 = float(rng.uniform(0.1, 0.6))
    stock = BrownianStock(sigma=sig0, dtype=dtype, dt=float(pick(rng, [1 / 250, 1 / 12])))
    cls = {"european": EuropeanOption, "american_binary": AmericanBinaryOption, "lookback": LookbackOption, "european_binary": EuropeanBinaryOption}[kind]
    d = cls(stock, strike=K, maturity=int(pick(rng, [3, 6])) * stock.dt)
    d.simulate(n_paths=int(pick(rng, [1, 4])))
    mod = {"european": BSEuropeanOption, "american_binary": BSAmericanBinaryOption, "lookback": BSLookbackOption,
           "european_binary": BSEuropeanBinaryOption}[kind].from_derivative(d)
    vol = torch.full_like(stock.spot, float(rng.uniform(0.05, 0.9)))
    precision = float(pick(rng, [1e-4, 1e-5]))
    mon = "iv.from_derivative_is_explicit"
    ctx.seen(mon)
    with torch.no_grad():
        price = mod.price(volatility=vol)
        lm, ttm = d.log_moneyness(), d.time_to_maturity()
        if kind in ("american_binary", "lookback"):
            mx = d.max_log_moneyness()
            if bool((mx > lm).any()):
                ctx.branch("iv.derivative.running_max_above_spot")
            a = mod.implied_volatility(price=price, precision=precision)
            b = mod.implied_volatility(lm, mx, ttm, price, precision=precision)
        else:
            a = mod.implied_volatility(price=price, precision=precision)
            b = mod.implied_volatility(lm, ttm, price, precision=precision)
    ok = a.shape == b.shape and bool(((a == b) | (torch.isnan(a) & torch.isnan(b))).all())
    ctx.check(mon, ok, "iv_from_derivative", f"{kind}: implied_volatility(price=...) of a module built from a derivative differs from the call with the "
              "derivative's own log-moneyness / running maximum / time to maturity passed explicitly", sig=(kind, str(dtype), K == 1.0),
              omitted=a.reshape(-1)[:6], explicit=b.reshape(-1)[:6])


def drv_witness(ctx, k, rng):
    """Fixed witness of the known finding bisect.python_float_bracket_searched_in_float32."""
    a = torch.tensor(1.7, dtype=F64)
    root = torch.tensor(-1.7829003749373784, dtype=F64)
    try:
        B.bisect(lambda x: a * x, a * root, -1.782900378662652, 1.9423731574448697, precision=1e-12, max_iter=300)
    except RuntimeError:
        pass


DRIVERS = [
    ("witness", 1, 1, drv_witness),
    ("analytic", 300, 20000, drv_analytic),
    ("abort", 30, 600, drv_abort),
    ("iv_derivative", 40, 1500, drv_iv_derivative),
    ("callers", 30, 500, drv_callers),
    ("iv", 160, 8000, drv_iv),
]
