"""C09 - Black-Scholes prices respect no-arbitrage structure.

Active relation monitor between calls of the real bs_*_price functions at related arguments
(vectorised: thousands of points / pairs / triples per case); slack = rounding bound only.
"""
import math

import numpy as np
import torch

import pfhedge.nn.functional as F

from ..gen import F32, F64, pick, t

RULE = (
    "points over log-moneyness [-1,1] (dense near 0), time (1e-3,5], volatility (0.01,2], strike (0.1,10], running max >= spot (M=S, "
    "M exactly on the strike, M straddling K at relative distance 1e-9..1e-1); pairs/triples in spot with spacing 1e-6..0.3, pairs in "
    "volatility and time with relative spacing 1e-6..1; f32 and f64. 13 relations per batch of 256 points. distinct = (relation, dtype, "
    "regime); evaluations counted per relation and batch; every element of a batch is checked"
)
ASSUMPTIONS = [
    "slack: 64 eps (S+K) on prices of size O(S+K) (128 eps for float32), 64 eps on probabilities; convexity slack additionally eps*(S+K)/h "
    "scaled second differences are compared with h^2-free form (second difference >= -slack)",
    "continuity: |jump| <= 4 K eps_M for the lookback (|dPrice/dM| <= 1) and <= eps_M (1 + 1/(sigma sqrt t)) for the American binary with spot "
    "and running max just below the strike",
]
ANCHORS = ['pfhedge.nn.functional:bs_european_price',
           'pfhedge.nn.functional:bs_european_binary_price',
           'pfhedge.nn.functional:bs_american_binary_price',
           'pfhedge.nn.functional:bs_lookback_price']
DECIDING = ["parity.european", "parity.binary", "bounds.call", "bounds.binaries", "monotone.spot", "convex.spot", "monotone.vol", "monotone.time",
            "lookback.dominance", "american.dominance", "american.one_at_barrier", "continuity.lookback", "continuity.american"]
REQUIRED_BRANCHES = ["via.module", "via.fn", "via.fn_positional", "via.module_with_derivative", "max==strike>spot", "float32", "float64"]

NB = 256


def pts(rng, dtype, n=NB):
    s = rng.uniform(-1, 1, n)
    s = np.where(rng.random(n) < 0.3, rng.uniform(-0.05, 0.05, n), s)
    tt = 10 ** rng.uniform(-3, math.log10(5), n)
    v = np.where(rng.random(n) < 0.7, rng.uniform(0.02, 0.8, n), rng.uniform(0.8, 2.0, n))
    K = np.where(rng.random(n) < 0.4, 1.0, 10 ** rng.uniform(-0.95, 1, n))
    u = rng.random(n)
    # a term structure through the strike: some points exactly at the money, a few already expired / with no volatility left (in the same batch)
    s = np.where(rng.random(n) < 0.06, 0.0, s)
    tt = np.where(rng.random(n) < 0.03, 0.0, tt)
    v = np.where(rng.random(n) < 0.02, 0.0, v)
    m = np.where(u < 0.25, s, np.where(u < 0.65, s + rng.uniform(0, 0.5, n), np.maximum(s, rng.uniform(-0.2, 0.3, n))))
    m = np.where((rng.random(n) < 0.12) & (s < 0), 0.0, np.maximum(m, s))
    return [t(z, dtype) for z in (s, tt, v, K, m)]


def first_bad(ok):
    bad = (~ok).nonzero()
    return int(bad[0, 0]) if bad.numel() else None


def drv_relations(ctx, k, rng):
    dtype = F64 if rng.random() < 0.7 else F32
    ctx.branch("float64" if dtype == F64 else "float32")
    e = float(torch.finfo(dtype).eps)
    c = 64 if dtype == F64 else 128
    s, tt, v, K, m = pts(rng, dtype)
    via = pick(rng, ["fn", "fn_positional", "module", "module_with_derivative"])
    ctx.branch("via." + via)
    if via == "fn_positional":
        # the same functions with strike / call flag passed by position (the documented parameter order)
        P_eu = lambda s_, t_, v_, strike=None, call=True: F.bs_european_price(s_, t_, v_, strike, call)  # noqa: E731
        P_eb = lambda s_, t_, v_, call=True: F.bs_european_binary_price(s_, t_, v_, call)  # noqa: E731
        P_ab = lambda s_, m_, t_, v_: F.bs_american_binary_price(s_, m_, t_, v_)  # noqa: E731
        P_lb = lambda s_, m_, t_, v_, strike=None: F.bs_lookback_price(s_, m_, t_, v_, strike)  # noqa: E731
    elif via == "module_with_derivative":
        # modules built directly with their own contract (flag, strike) and a derivative attached: explicit arguments and the module's own contract decide
        from pfhedge.instruments import AmericanBinaryOption, BrownianStock, EuropeanBinaryOption, EuropeanOption, LookbackOption
        from pfhedge.nn import BSAmericanBinaryOption, BSEuropeanBinaryOption, BSEuropeanOption, BSLookbackOption

        k0 = float(pick(rng, [1.0, 0.6, 2.5]))
        K = torch.full_like(K, k0)
        stk = BrownianStock()
        d_eu, d_eb = EuropeanOption(stk, call=True, strike=k0), EuropeanBinaryOption(stk, call=True, strike=k0)
        d_ab, d_lb = AmericanBinaryOption(stk, strike=k0), LookbackOption(stk, strike=k0)
        P_eu = lambda s_, t_, v_, strike=None, call=True: BSEuropeanOption(call=call, strike=k0, derivative=d_eu).price(s_, t_, v_)  # noqa: E731
        P_eb = lambda s_, t_, v_, call=True: BSEuropeanBinaryOption(call=call, strike=k0, derivative=d_eb).price(s_, t_, v_)  # noqa: E731
        P_ab = lambda s_, m_, t_, v_: BSAmericanBinaryOption(strike=k0, derivative=d_ab).price(s_, m_, t_, v_)  # noqa: E731
        P_lb = lambda s_, m_, t_, v_, strike=None: BSLookbackOption(strike=k0, derivative=d_lb).price(s_, m_, t_, v_)  # noqa: E731
    elif via == "module":
        # the pricing modules are the other public surface of the same formulas (scalar strike per module)
        from pfhedge.nn import BSAmericanBinaryOption, BSEuropeanBinaryOption, BSEuropeanOption, BSLookbackOption

        k0 = float(pick(rng, [1.0, 0.6, 2.5]))
        K = torch.full_like(K, k0)
        P_eu = lambda s_, t_, v_, strike=None, call=True: BSEuropeanOption(call=call, strike=k0).price(s_, t_, v_)  # noqa: E731
        P_eb = lambda s_, t_, v_, call=True: BSEuropeanBinaryOption(call=call, strike=k0).price(s_, t_, v_)  # noqa: E731
        P_ab = lambda s_, m_, t_, v_: BSAmericanBinaryOption(strike=k0).price(s_, m_, t_, v_)  # noqa: E731
        P_lb = lambda s_, m_, t_, v_, strike=None: BSLookbackOption(strike=k0).price(s_, m_, t_, v_)  # noqa: E731
    else:
        P_eu, P_eb, P_ab, P_lb = F.bs_european_price, F.bs_european_binary_price, F.bs_american_binary_price, F.bs_lookback_price
    if bool(((m == 0) & (s < 0)).any()):
        ctx.branch("max==strike>spot")
    S = K * s.exp()
    M = K * m.exp()
    sl = c * e * (S + K)
    sig = (str(dtype), via)

    def rep(mon, ok, msg, **kw):
        ctx.seen(mon)
        i = first_bad(ok)
        if i is None:
            ctx.ok(mon, sig=(mon,) + sig, n=int(ok.numel()))
        else:
            det = dict(index=i, log_moneyness=float(s[i]), time_to_maturity=float(tt[i]), volatility=float(v[i]), strike=float(K[i]),
                       max_log_moneyness=float(m[i]))
            det.update({kk: (float(vv[i]) if isinstance(vv, torch.Tensor) and vv.numel() == s.numel() else vv) for kk, vv in kw.items()})
            ctx.violation(mon, mon, msg + f" at s={float(s[i])!r}, t={float(tt[i])!r}, sigma={float(v[i])!r}, K={float(K[i])!r}, m={float(m[i])!r}",
                          sig=(mon,) + sig, **det)

    C = P_eu(s, tt, v, strike=K, call=True)
    P = P_eu(s, tt, v, strike=K, call=False)
    rep("parity.european", (C - P - (S - K)).abs() <= sl, "call - put != S - K", call=C, put=P)
    bc = P_eb(s, tt, v, call=True)
    bp = P_eb(s, tt, v, call=False)
    rep("parity.binary", (bc + bp - 1).abs() <= c * e, "binary call + binary put != 1", call=bc, put=bp)
    rep("bounds.call", ((S - K).clamp(min=0) - sl <= C) & (C <= S + sl) & (P >= (K - S).clamp(min=0) - sl) & (P <= K + sl),
        "European price outside [intrinsic, spot] / [intrinsic, strike]", call=C, put=P)
    ab = P_ab(s, m, tt, v)
    rep("bounds.binaries", (bc >= 0) & (bc <= 1) & (bp >= 0) & (bp <= 1) & (ab >= -c * e) & (ab <= 1 + c * e),
        "binary price outside [0,1]", binary_call=bc, binary_put=bp, american=ab)
    # monotone / convex in the spot at fixed strike (pairs and triples)
    h = t(10 ** rng.uniform(-6, -0.5, NB), dtype)
    C1 = P_eu(s + h, tt, v, strike=K, call=True)
    S1 = K * (s + h).exp()
    rep("monotone.spot", C1 >= C - sl, "call price decreases in the spot", c0=C, c1=C1, h=h)
    rep("monotone.spot", (C1 - C) <= (S1 - S) + c * e * (S1 + K), "call price grows faster than the spot (delta > 1)", c0=C, c1=C1, h=h)
    # convexity on equally spaced spots: C(S-d) + C(S+d) - 2 C(S) >= -slack
    d = S * t(10 ** rng.uniform(-4, -0.3, NB), dtype)
    Cm = P_eu(((S - d) / K).log(), tt, v, strike=K, call=True)
    Cp = P_eu(((S + d) / K).log(), tt, v, strike=K, call=True)
    rep("convex.spot", Cm + Cp - 2 * C >= -4 * c * e * (S + d + K), "call price not convex in the spot", c_minus=Cm, c0=C, c_plus=Cp, d=d)
    f = 1 + t(10 ** rng.uniform(-6, 0, NB), dtype)
    Cv = P_eu(s, tt, v * f, strike=K, call=True)
    rep("monotone.vol", Cv >= C - sl, "call price decreases with volatility", c0=C, c1=Cv, factor=f)
    Ct = P_eu(s, tt * f, v, strike=K, call=True)
    rep("monotone.time", Ct >= C - sl, "call price decreases with time to maturity", c0=C, c1=Ct, factor=f)
    lb = P_lb(s, m, tt, v, strike=K)
    rep("lookback.dominance", (lb >= C - c * e * (S + K + M)) & (lb >= (M - K).clamp(min=0) - c * e * (S + K + M)),
        "lookback call < European call or < locked-in payoff", lookback=lb, european=C, locked=(M - K).clamp(min=0))
    rep("american.dominance", ab >= bc - c * e, "American binary < European binary", american=ab, european=bc)
    reached = m >= 0
    rep("american.one_at_barrier", (~reached) | (ab == 1), "American binary != 1 although the running maximum has reached the strike", american=ab)
    # continuity where the running maximum crosses the strike
    em = t(10 ** rng.uniform(-9, -1, NB), dtype)
    lo, hi = (1 - em).log(), (1 + em).log()
    s2 = torch.minimum(s, lo)  # spot at or below the running maximum
    lb_lo = P_lb(s2, lo, tt, v, strike=K)
    lb_hi = P_lb(s2, hi, tt, v, strike=K)
    S2 = K * s2.exp()
    rep("continuity.lookback", (lb_hi - lb_lo).abs() <= 4 * K * em + c * e * (S2 + 3 * K), "lookback price jumps where the running maximum crosses the strike",
        below=lb_lo, above=lb_hi, rel_distance=em)
    ab_lo = P_ab(lo, lo, tt, v)
    w = v * tt.sqrt()
    rep("continuity.american", (1 - ab_lo).abs() <= em * 2 * (1 + 1 / w) + c * e, "American binary price jumps where the running maximum crosses the strike",
        just_below=ab_lo, rel_distance=em)
    if k < 4:
        ctx.sample({"driver": "relations", "dtype": str(dtype), "s": s[:3], "t": tt[:3], "sigma": v[:3], "K": K[:3], "m": m[:3], "call": C[:3],
                    "put": P[:3], "lookback": lb[:3], "american_binary": ab[:3]})


DRIVERS = [
    ("relations", 150, 20000, drv_relations),
]
