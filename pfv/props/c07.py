"""C07 - Black-Scholes prices equal the expected payoff under the model.

Passive contract on the four bs_*_price functions (all aliases): sampled elements of every call are
compared with a 30-digit quadrature of the payoff against the model law (pfv.oracles.mpbs).  Active
drivers: parameter sweeps with broadcast shapes, and pricing modules built from simulated
derivatives (strike / call flag / simulated state plumbing, bit-identical to the functional form).
"""
import math

import mpmath
import numpy as np
import torch

import pfhedge.nn.functional as F
from pfhedge.instruments import AmericanBinaryOption
from pfhedge.instruments import BrownianStock
from pfhedge.instruments import EuropeanBinaryOption
from pfhedge.instruments import EuropeanOption
from pfhedge.instruments import HestonStock
from pfhedge.instruments import LookbackOption
from pfhedge.nn import BlackScholes
from pfhedge.nn import BSAmericanBinaryOption
from pfhedge.nn import BSEuropeanBinaryOption
from pfhedge.nn import BSEuropeanOption
from pfhedge.nn import BSLookbackOption

from .. import contracts
from ..gen import F32, F64, pick, t
from ..oracles import mpbs

RULE = (
    "sweeps: log-moneyness in [-1,1], time in (0,5], volatility in (0,2], strike in (0.1,10], running max >= spot incl. M=S and M "
    "straddling K, broadcast shapes (N,1)x(1,T) / scalars / 0-dim, call/put where offered, f64 and f32; module driver: BlackScholes("
    "derivative).price() on simulated derivatives with random strike/call. <=3 sampled elements of every price call go to the "
    "quadrature oracle. distinct = (function, call, moneyness-class, maturity-class, max-class, dtype, shape-class)"
)
ASSUMPTIONS = [
    "oracle: mpmath.quad at 30 digits of payoff x model law (lognormal density; reflection-principle law of the running maximum)",
    "bound float64: 1e-9 relative + 1e-11*(S+K); float32 inputs: 2e-5 relative + 2e-6*(S+K)",
    "calls outside the property's domain (t<=0, sigma<=0, M<S, parameters outside the stated ranges) are not judged here (see C18)",
]
ANCHORS = ['pfhedge.nn.functional:d1',
           'pfhedge.nn.functional:d2',
           'pfhedge.nn.functional:bs_european_price',
           'pfhedge.nn.functional:bs_european_binary_price',
           'pfhedge.nn.functional:bs_american_binary_price',
           'pfhedge.nn.functional:bs_lookback_price',
           'pfhedge.nn.modules.bs._base:acquire_params_from_derivative_0',
           'pfhedge.nn.modules.bs._base:acquire_params_from_derivative_1',
           'pfhedge.nn.modules.bs._base:acquire_params_from_derivative_2']
DECIDING = ["module.partial_arguments", "module.own_contract_with_derivative_state", "price.european", "price.european_binary", "price.american_binary", "price.lookback", "module.plumbing"]
REQUIRED_BRANCHES = ["max_ladder.all_below_strike", "module.struck_at_initial_spot", "module.partial.max_omitted_spot_given", "module.resimulated_through_underlier", "american_binary.max==strike>spot", "european.put", "european_binary.put", "american_binary.max>=strike", "american_binary.max<strike",
                     "lookback.max>=strike", "lookback.max<strike", "strike!=1"]

_CTX = None
MAXE = 3


def in_domain(s, tt, v, K, m=None):
    ok = -1.0 <= s <= 1.0 and 0 < tt <= 5.0 and 0 < v <= 2.0 and 0.1 < K <= 10.0
    if m is not None:
        ok = ok and m >= s and m <= 3.0
    return ok and v * math.sqrt(tt) > 1e-3


def judge(ctx, mon, kind, out, s, tt, v, K, call, m=None, sig=(), f32_scalars=False):
    try:
        parts = torch.broadcast_tensors(*[z if isinstance(z, torch.Tensor) else torch.tensor(float(z), dtype=F64)
                                          for z in ([s, tt, v] + ([m] if m is not None else []))])
    except RuntimeError:
        ctx.ood(mon)
        return
    shp = parts[0].shape
    if out.shape != shp:
        ctx.violation(mon, "shape", f"price shape {tuple(out.shape)} expected {tuple(shp)}", sig=sig)
        return
    n = out.numel()
    if n == 0:
        ctx.ood(mon)
        return
    flat = [p.reshape(-1) for p in parts]
    o = out.reshape(-1)
    idx = sorted({0, n - 1, (n * 7) // 11})[:MAXE]
    dtype = out.dtype
    rel, ab = (1e-9, 1e-11) if dtype == F64 else (2e-5, 2e-6)
    Kt = K if isinstance(K, torch.Tensor) else None
    judged = 0
    for i in idx:
        sv, tv, vv = float(flat[0][i]), float(flat[1][i]), float(flat[2][i])
        mv = float(flat[3][i]) if m is not None else None
        if Kt is None:
            Kv = float(K)
        else:
            Kv = float(Kt.reshape(-1)[i]) if Kt.numel() == n else float(Kt.reshape(-1)[0])
        if not in_domain(sv, tv, vv, Kv, mv):
            ctx.ood(mon)
            continue
        if kind == "european":
            want = mpbs.european(sv, tv, vv, Kv, call)
            ctx.branch("european." + ("call" if call else "put"))
        elif kind == "european_binary":
            want = mpbs.european_binary(sv, tv, vv, call)
            ctx.branch("european_binary." + ("call" if call else "put"))
        elif kind == "american_binary":
            want = mpbs.american_binary(sv, mv, tv, vv)
            ctx.branch("american_binary." + ("max>=strike" if mv >= 0 else "max<strike"))
            if mv == 0 and sv < 0:
                ctx.branch("american_binary.max==strike>spot")
        else:
            want = mpbs.lookback(sv, mv, tv, vv, Kv)
            ctx.branch("lookback." + ("max>=strike" if mv >= 0 else "max<strike"))
        if Kv != 1.0:
            ctx.branch("strike!=1")
        got = float(o[i])
        scale = Kv * (1 + math.exp(sv)) if kind in ("european", "lookback") else 1.0
        if kind == "lookback":
            scale += Kv * math.exp(mv)
        bound = rel * abs(float(want)) + ab * scale
        cls = (kind, call, "itm" if sv > 0.05 else ("otm" if sv < -0.05 else "atm"), "short" if tv < 0.1 else ("long" if tv > 1 else "mid"),
               None if mv is None else ("M=S" if mv == sv else ("M>=K" if mv >= 0 else "M<K")), str(dtype), "K1" if Kv == 1.0 else "K")
        if not (math.isfinite(got) and abs(mpmath.mpf(got) - want) <= bound):
            key = "value"
            if f32_scalars and math.isfinite(got) and abs(mpmath.mpf(got) - want) <= 2e-5 * abs(float(want)) + 2e-6 * scale:
                # float64 tensors + python-scalar time/volatility: torch.as_tensor(scalar) is float32 and sigma*sqrt(t) is formed in float32
                key = "lookback.python_scalars_computed_in_float32"
            ctx.violation(mon, key, f"{kind} price {got!r} != E[payoff] = {float(want)!r} (s={sv!r}, t={tv!r}, sigma={vv!r}, K={Kv!r}, "
                          f"call={call}, max_log_moneyness={mv!r})", sig=cls + tuple(sig), log_moneyness=sv, time_to_maturity=tv, volatility=vv,
                          strike=Kv, call=call, max_log_moneyness=mv, observed=got, oracle=float(want), bound=bound)
            return
        ctx.ok(mon, sig=cls + tuple(sig))
        judged += 1


def _guard(fn, *a, **k):
    try:
        fn(*a, **k)
    except Exception as e:
        from ..core import HarnessError

        raise HarnessError(f"price oracle failed: {e!r}")


def _mk_eu(orig):
    def bs_european_price(log_moneyness, time_to_maturity, volatility, strike=1.0, call=True):
        out = orig(log_moneyness, time_to_maturity, volatility, strike=strike, call=call)
        if _CTX is not None:
            _CTX.seen("price.european")
            _guard(judge, _CTX, "price.european", "european", out.detach(), log_moneyness, time_to_maturity, volatility, strike, call)
        return out

    return bs_european_price


def _mk_eb(orig):
    def bs_european_binary_price(log_moneyness, time_to_maturity, volatility, call=True):
        out = orig(log_moneyness, time_to_maturity, volatility, call=call)
        if _CTX is not None:
            _CTX.seen("price.european_binary")
            _guard(judge, _CTX, "price.european_binary", "european_binary", out.detach(), log_moneyness, time_to_maturity, volatility, 1.0, call)
        return out

    return bs_european_binary_price


def _mk_ab(orig):
    def bs_american_binary_price(log_moneyness, max_log_moneyness, time_to_maturity, volatility):
        out = orig(log_moneyness, max_log_moneyness, time_to_maturity, volatility)
        if _CTX is not None:
            _CTX.seen("price.american_binary")
            _guard(judge, _CTX, "price.american_binary", "american_binary", out.detach(), log_moneyness, time_to_maturity, volatility, 1.0, True,
                   m=max_log_moneyness)
        return out

    return bs_american_binary_price


def _mk_lb(orig):
    def bs_lookback_price(log_moneyness, max_log_moneyness, time_to_maturity, volatility, strike):
        out = orig(log_moneyness, max_log_moneyness, time_to_maturity, volatility, strike)
        if _CTX is not None:
            _CTX.seen("price.lookback")
            scal = any(not isinstance(z, torch.Tensor) for z in (log_moneyness, max_log_moneyness, time_to_maturity, volatility))
            _guard(judge, _CTX, "price.lookback", "lookback", out.detach(), log_moneyness, time_to_maturity, volatility, strike, True,
                   m=max_log_moneyness, f32_scalars=scal and out.dtype == F64)
        return out

    return bs_lookback_price


def setup(ctx):
    global _CTX
    _CTX = ctx
    sites = {}
    for name, mk in (("bs_european_price", _mk_eu), ("bs_european_binary_price", _mk_eb), ("bs_american_binary_price", _mk_ab),
                     ("bs_lookback_price", _mk_lb)):
        sites[name] = contracts.wrap_function("pfhedge.nn.functional", name, mk)
    ctx.extra["binding_sites"] = sites


def gen_points(rng, dtype, n):
    s = rng.uniform(-1, 1, n)
    s = np.where(rng.random(n) < 0.2, rng.uniform(-0.05, 0.05, n), s)
    tt = 10 ** rng.uniform(-2.3, math.log10(5), n)
    v = np.where(rng.random(n) < 0.7, rng.uniform(0.05, 0.8, n), rng.uniform(0.8, 2.0, n))
    mk = rng.random(n)
    m = np.where(mk < 0.25, s, np.where(mk < 0.6, s + rng.uniform(0, 0.5, n), np.maximum(s, rng.uniform(-0.2, 0.3, n))))
    m = np.maximum(m, s)
    # the running maximum sitting exactly on the strike (option struck at the initial spot, spot has fallen since)
    m = np.where((rng.random(n) < 0.15) & (s < 0), 0.0, m)
    return t(s, dtype), t(tt, dtype), t(v, dtype), t(m, dtype)


def drv_sweep(ctx, k, rng):
    dtype = F64 if rng.random() < 0.8 else F32
    shape_kind = pick(rng, ["vec", "vec", "bcast", "scalar", "0dim", "max_ladder"])
    K = float(pick(rng, [1.0, 1.0, 0.5, 2.0, float(rng.uniform(0.11, 10))]))
    if shape_kind == "bcast":
        s, _, _, m = gen_points(rng, dtype, 3)
        _, tt, v, _ = gen_points(rng, dtype, 2)
        s, m = s.unsqueeze(1), m.unsqueeze(1)
        m = torch.maximum(m, s)
        tt, v = tt.unsqueeze(0), v.unsqueeze(0)
    elif shape_kind == "scalar":
        s, tt, v, m = gen_points(rng, dtype, 2)
        tt, v = float(tt[0]), float(v[0])
    elif shape_kind == "0dim":
        s, tt, v, m = (z[0] for z in gen_points(rng, dtype, 1))
    elif shape_kind == "max_ladder":
        # one spot / maturity / volatility against a ladder of running maxima (a dimension only the maximum has); half the time all of them below the strike
        s, tt, v, _ = (z[0] for z in gen_points(rng, dtype, 1))
        if rng.random() < 0.5:
            s = -s.abs() - 0.05
            m = s + t(np.sort(rng.uniform(0, 1, 4)), dtype) * (-s) * 0.9
            ctx.branch("max_ladder.all_below_strike")
        else:
            m = s + t(np.sort(rng.uniform(0, 0.6, 4)), dtype)
    else:
        s, tt, v, m = gen_points(rng, dtype, 3)
    which = pick(rng, ["european", "european_binary", "american_binary", "lookback"])
    call = bool(rng.random() < 0.5)
    via = pick(rng, ["fn", "module"])
    if which == "european":
        out = F.bs_european_price(s, tt, v, strike=K, call=call) if via == "fn" else BSEuropeanOption(call=call, strike=K).price(s, tt, v)
    elif which == "european_binary":
        out = F.bs_european_binary_price(s, tt, v, call=call) if via == "fn" else BSEuropeanBinaryOption(call=call, strike=K).price(s, tt, v)
    elif which == "american_binary":
        out = F.bs_american_binary_price(s, m, tt, v) if via == "fn" else BSAmericanBinaryOption(strike=K).price(s, m, tt, v)
    else:
        out = F.bs_lookback_price(s, m, tt, v, strike=K) if via == "fn" else BSLookbackOption(strike=K).price(s, m, tt, v)
    if k < 6:
        ctx.sample({"driver": "sweep", "which": which, "via": via, "call": call, "strike": K, "shape": shape_kind, "s": s, "t": tt, "sigma": v,
                    "m": m, "price": out})


def drv_module(ctx, k, rng):
    """Modules built from a simulated derivative use its strike, flag and simulated state."""
    dtype = pick(rng, [None, F64, F64])
    sigma = float(rng.uniform(0.1, 0.6))
    # (a drifting underlier: the Black-Scholes price of the module is the zero-rate risk-neutral one whatever the real-world drift)
    stock = (BrownianStock(sigma=sigma, mu=float(pick(rng, [0.0, 0.0, 0.15, -0.3])), dtype=dtype, dt=float(pick(rng, [1 / 250, 1 / 52])))
             if rng.random() < 0.7 else HestonStock(dtype=dtype))
    K = float(pick(rng, [1.0, 0.9, 1.2, 2.0, 0.5, 1.03, 1.05, 1.27, 2.1, 0.95, 1.9, 3.15, round(float(rng.uniform(0.4, 3.5)), 2)]))
    call = bool(rng.random() < 0.5)
    kind = pick(rng, ["european", "european_binary", "american_binary", "lookback"])
    mat = int(pick(rng, [3, 10, 20])) * stock.dt
    if kind == "european":
        d = EuropeanOption(stock, call=call, strike=K, maturity=mat)
    elif kind == "european_binary":
        d = EuropeanBinaryOption(stock, call=call, strike=K, maturity=mat)
    elif kind == "american_binary":
        call = True
        d = AmericanBinaryOption(stock, call=True, strike=K, maturity=mat)
    else:
        call = True
        d = LookbackOption(stock, call=True, strike=K, maturity=mat)
    init = (float(K * math.exp(rng.uniform(-0.2, 0.2))) if rng.random() < 0.5 else K,) if isinstance(stock, BrownianStock) else None
    if init is not None and init[0] == K:
        # an option struck exactly at the initial spot (given in the stock's own dtype, so that spot / strike is exactly one at the first step)
        init = (torch.tensor(K, dtype=dtype or torch.get_default_dtype()),)
        ctx.branch("module.struck_at_initial_spot")
    d.simulate(n_paths=2, init_state=init)
    m = BlackScholes(d)
    if rng.random() < 0.5:
        # price once, then let the market data change through another handle (the shared underlier): the module must price the *current* state
        with torch.no_grad():
            m.price()
            d.max_log_moneyness()
        stock.simulate(n_paths=2, time_horizon=mat, init_state=init)
        ctx.branch("module.resimulated_through_underlier")
    mon = "module.plumbing"
    ctx.seen(mon)
    price = m.price()  # judged element-wise by the passive oracle where t > 0
    # the derivative's state, recomputed here from the buffers (not read back through the derivative's own accessors)
    spot = stock.spot
    Tn = spot.shape[1]
    s = (spot / K).log()
    mlm = s.cummax(dim=-1).values
    tt = ((Tn - 1 - torch.arange(Tn)).to(spot) * stock.dt).unsqueeze(0).expand_as(spot)
    v = stock.volatility
    if kind == "european":
        want = F.bs_european_price(s, tt, v, strike=K, call=call)
    elif kind == "european_binary":
        want = F.bs_european_binary_price(s, tt, v, call=call)
    elif kind == "american_binary":
        want = F.bs_american_binary_price(s, mlm, tt, v)
    else:
        want = F.bs_lookback_price(s, mlm, tt, v, strike=K)
    e_ = float(torch.finfo(price.dtype).eps)
    ok = (price.shape == want.shape and bool(((price[:, :-1] - want[:, :-1]).abs() <= 64 * e_ * (want[:, :-1].abs() + K + 1)).all()) and m.strike == K
          and getattr(m, "call", True) == call)
    ctx.check(mon, ok, "plumbing", f"BlackScholes({type(d).__name__}(call={call}, strike={K})).price() differs from the functional form on the "
              "derivative's own state", sig=(kind, call, K == 1.0, str(dtype), type(stock).__name__), price=price[0, :4], want=want[0, :4],
              module_strike=m.strike, module_call=getattr(m, "call", None))
    # only some of the arguments given (a shocked spot, another volatility, ...): each omitted one is the derivative's own, each given one is used as given
    mon = "module.partial_arguments"
    shocked = {"log_moneyness": s - 0.1, "time_to_maturity": tt + 0.05, "volatility": v * 1.3}
    own = {"log_moneyness": s, "time_to_maturity": tt, "volatility": v}
    path = kind in ("american_binary", "lookback")
    if path:
        shocked["max_log_moneyness"] = mlm + 0.07
        own["max_log_moneyness"] = mlm
    names_ = list(own)
    for _ in range(2):
        given = [n_ for n_ in names_ if rng.random() < 0.5]
        if not given or len(given) == len(names_):
            continue
        ctx.seen(mon)
        ctx.branch("module.partial." + ("max_omitted_spot_given" if path and "log_moneyness" in given and "max_log_moneyness" not in given else "other"))
        full = {n_: (shocked[n_] if n_ in given else own[n_]) for n_ in names_}
        with torch.no_grad():
            got = m.price(**{n_: shocked[n_] for n_ in given})
            if kind == "european":
                ref = F.bs_european_price(full["log_moneyness"], full["time_to_maturity"], full["volatility"], strike=K, call=call)
            elif kind == "european_binary":
                ref = F.bs_european_binary_price(full["log_moneyness"], full["time_to_maturity"], full["volatility"], call=call)
            elif kind == "american_binary":
                ref = F.bs_american_binary_price(full["log_moneyness"], full["max_log_moneyness"], full["time_to_maturity"], full["volatility"])
            else:
                ref = F.bs_lookback_price(full["log_moneyness"], full["max_log_moneyness"], full["time_to_maturity"], full["volatility"], strike=K)
        okp = got.shape == ref.shape and bool((((got - ref).abs() <= 64 * e_ * (ref.abs() + K + 1)) | (torch.isnan(got) & torch.isnan(ref))).all())
        ctx.check(mon, okp, "partial_arguments", f"BlackScholes({type(d).__name__}).price({', '.join(given)}=...) does not use the given arguments together with the "
                  f"derivative's own for the omitted ones", sig=(kind, tuple(given)), given=given, got=got[0, :4], want=ref[0, :4])
    # a module built directly: its own contract flag wins over the attached derivative's (which only supplies the state)
    if kind in ("european", "european_binary") and rng.random() < 0.5:
        mon = "module.own_contract_with_derivative_state"
        ctx.seen(mon)
        cls = BSEuropeanOption if kind == "european" else BSEuropeanBinaryOption
        m2 = cls(call=not call, strike=K, derivative=d)
        with torch.no_grad():
            got = m2.price()
            ref = (F.bs_european_price(s, tt, v, strike=K, call=not call) if kind == "european" else F.bs_european_binary_price(s, tt, v, call=not call))
        ctx.check(mon, bool(((got - ref).abs()[:, :-1] <= 64 * e_ * (ref.abs()[:, :-1] + K + 1)).all()), "own_contract",
                  f"{cls.__name__}(call={not call}, strike={K}, derivative=<{'call' if call else 'put'}>) does not price its own contract on the derivative's state",
                  sig=(kind, call), got=got[0, :4], want=ref[0, :4])
    if k < 3:
        ctx.sample({"driver": "module", "derivative": repr(d)[:160], "price_row0": price[0, :4]})


def drv_witness(ctx, k, rng):
    """Fixed witness of the known finding lookback.python_scalars_computed_in_float32."""
    s = torch.tensor([0.06001322199880943], dtype=F64)
    F.bs_lookback_price(s, s.clone(), 2.310519979614823, 0.5695821986906204, strike=0.5)


DRIVERS = [
    ("witness", 1, 1, drv_witness),
    ("sweep", 240, 6000, drv_sweep),
    ("module", 60, 2000, drv_module),
]
