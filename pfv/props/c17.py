"""C17 - instrument dtype/device contract over any cast/simulate sequence.

Reference-model monitor: an abstract state (declared dtype, per-buffer dtype, global default) with the
documented transition function is stepped alongside the real object; after every operation the real
instrument must agree.  All operation sequences up to a bounded depth are enumerated exhaustively for
each primary and for derivative wrappers; longer sequences are drawn at random.  Quantities derived
from the final state (payoff, features, listed price, hedge, P&L, loss, price) must carry its dtype.
"""
import itertools

import numpy as np
import torch

from pfhedge.instruments import BrownianStock
from pfhedge.instruments import CIRRate
from pfhedge.instruments import EuropeanOption
from pfhedge.instruments import HestonStock
from pfhedge.instruments import KouJumpStock
from pfhedge.instruments import LocalVolatilityStock
from pfhedge.instruments import LookbackOption
from pfhedge.instruments import MertonJumpStock
from pfhedge.instruments import RoughBergomiStock
from pfhedge.instruments import VarianceSwap
from pfhedge.instruments import VasicekRate
from pfhedge.nn import BlackScholes
from pfhedge.nn import Hedger
from pfhedge.nn import MultiLayerPerceptron
from pfhedge.nn import Naked
from pfhedge.nn import WhalleyWilmott
from pfhedge.instruments import BaseDerivative

from .. import pipelines as P
from ..gen import F32, F64, pick

F16, BF16 = torch.float16, torch.bfloat16

RULE = (
    "exhaustive: every sequence of length <= D (D = 2 quick, 3 thorough) over 17 operations {to(f32), to(f64), float(), double(), half(), "
    "bfloat16(), to(f64 tensor), to(f32 tensor), to(instrument declared f64), to(undeclared instrument), to(instrument=...), simulate, register_buffer (float tensor, integer tensor, a second name for the spot series), "
    "set_default_dtype(f64), to(int32) [must raise]} for each of 8 primaries (constructed with dtype None and f64) and 4 derivative "
    "wrappers (one on two underliers), under the float32 global default; plus seeded random sequences of length 4-10. After every operation the real object is compared "
    "with the reference state machine. distinct = distinct (target, operation sequence); trivial = sequences without simulate/register_buffer"
)
ASSUMPTIONS = [
    "device fixed to CPU (no accelerator in the sandbox); to(device='cpu') is part of the random sequences only",
    "simulation in float16/bfloat16 that the backend refuses is counted as unsupported and the sequence is cut there",
    "derived quantities are checked for float32/float64 final states (models cast to that dtype by the harness)",
]
ANCHORS = ['pfhedge.instruments.primary.base:BasePrimary.to',
           'pfhedge.instruments.primary.base:BasePrimary.register_buffer',
           'pfhedge.instruments.primary.base:BasePrimary._parse_to',
           'pfhedge.instruments.derivative.base:BaseDerivative.to',
           'pfhedge.stochastic._utils:cast_state']
DECIDING = ["state_machine", "derived.dtype", "reject.int_dtype"]
REQUIRED_BRANCHES = ["op.simulate_after_cast", "op.cast_after_simulate", "op.to_instrument", "op.register_buffer", "op.set_default", "derivative.alias", "derivative.two_underliers", "op.cast_alias_spelling", "op.register_alias", "derived.criteria_in_half_precision"]

PRIMS = ["brownian", "heston", "cir", "vasicek", "merton", "kou", "rbergomi", "localvol"]
OPS = ["to_f32", "to_f64", "float", "double", "half", "bfloat16", "to_tensor64", "to_tensor32", "to_inst64", "to_inst_none", "to_inst_kw32", "simulate",
       "register", "register_int", "register_alias", "default64", "to_int"]


class Spread(BaseDerivative):
    """A user derivative on two underliers: its casts and simulations reach both."""

    def __init__(self, u1, u2, maturity):
        super().__init__()
        self.register_underlier("u1", u1)
        self.register_underlier("u2", u2)
        self.maturity = maturity

    def payoff_fn(self):
        return torch.relu(self.u1.spot[:, -1] - self.u2.spot[:, -1])


def build(kind, dtype):
    kw = dict(dtype=dtype)
    return {"brownian": lambda: BrownianStock(**kw), "heston": lambda: HestonStock(**kw), "cir": lambda: CIRRate(**kw),
            "vasicek": lambda: VasicekRate(**kw), "merton": lambda: MertonJumpStock(**kw), "kou": lambda: KouJumpStock(**kw),
            "rbergomi": lambda: RoughBergomiStock(**kw), "localvol": lambda: LocalVolatilityStock(P.lv_sigma, **kw)}[kind]()


NAMES = {"brownian": ["spot"], "heston": ["spot", "variance"], "cir": ["spot"], "vasicek": ["spot"], "merton": ["spot"], "kou": ["spot"],
         "rbergomi": ["spot", "variance"], "localvol": ["spot", "volatility"]}


class Model:
    """Reference state machine (DESIGN.md appendix B)."""

    def __init__(self, kind, dtype):
        self.kind = kind
        self.d = dtype
        self.B = {}
        self.g = torch.get_default_dtype()

    def cast(self, x):
        if x is None:
            return
        self.d = x
        for n in self.B:
            self.B[n] = x

    def simulate(self):
        for n in NAMES[self.kind]:
            self.B[n] = self.d if self.d is not None else self.g

    def register(self, name, tdtype):
        self.B[name] = self.d if self.d is not None else tdtype


def apply(op, target, model, prim, alt=False):
    """Apply op to the real target (primary or derivative) and to the model.  `alt` selects the documented alias spelling of the cast
    (float32() for float(), float64() for double(), float16() for half(), to(dtype=...) / cpu())."""
    if alt and op in ("float", "double", "half", "to_f32", "to_cpu"):
        ctx_alias = {"float": ("float32", F32), "double": ("float64", F64), "half": ("float16", F16)}
        if op in ctx_alias:
            getattr(target, ctx_alias[op][0])()
            model.cast(ctx_alias[op][1])
        elif op == "to_f32":
            target.to(dtype=F32, device=torch.device("cpu"))
            model.cast(F32)
        else:
            target.cpu()
        return
    if op == "to_f32":
        target.to(F32)
        model.cast(F32)
    elif op == "to_f64":
        target.to(dtype=F64)
        model.cast(F64)
    elif op == "float":
        target.float()
        model.cast(F32)
    elif op == "double":
        target.double()
        model.cast(F64)
    elif op == "half":
        target.half()
        model.cast(F16)
    elif op == "bfloat16":
        target.bfloat16()
        model.cast(BF16)
    elif op == "to_tensor64":
        target.to(torch.zeros(1, dtype=F64))
        model.cast(F64)
    elif op == "to_tensor32":
        target.to(torch.zeros(1, dtype=F32))
        model.cast(F32)
    elif op == "to_inst64":
        target.to(BrownianStock(dtype=F64))
        model.cast(F64)
    elif op == "to_inst_none":
        target.to(BrownianStock())
        model.cast(None)
    elif op == "to_inst_kw32":
        target.to(instrument=BrownianStock(dtype=F32))  # keyword form of to(instrument)
        model.cast(F32)
    elif op == "to_cpu":
        target.to(torch.device("cpu"))
    elif op == "simulate":
        if hasattr(target, "underliers"):
            target.simulate(n_paths=2)
        else:
            target.simulate(n_paths=2, time_horizon=2 * prim.dt)
        model.simulate()
    elif op == "register":
        t_ = torch.ones(2, 3, dtype=F32)
        prim.register_buffer("aux", t_)
        model.register("aux", F32)
    elif op == "register_alias":
        # a second name for a series the instrument already holds (the tensor is already in the instrument's dtype, so it is stored as it is)
        src = dict(prim.named_buffers()).get("spot")
        if src is None:
            src = torch.ones(2, 3, dtype=F32)
        prim.register_buffer("aux", src)
        model.register("aux", src.dtype)
    elif op == "register_int":
        prim.register_buffer("aux", torch.arange(6).reshape(2, 3))  # an integer tensor: cast to the declared dtype like any other
        model.register("aux", torch.int64)
    elif op == "default64":
        torch.set_default_dtype(F64)
        model.g = F64
    elif op == "default32":
        torch.set_default_dtype(F32)
        model.g = F32
    else:
        raise ValueError(op)


def agree(ctx, mon, prim, model, seq, target_label, deriv=None):
    # every name the reference expects or the instrument lists, read back through the public accessor
    sig = (target_label,) + tuple(seq)
    listed = dict(prim.named_buffers())
    bufs = {}
    for n in sorted(set(model.B) | set(listed)):
        try:
            b = prim.get_buffer(n)
        except AttributeError:
            continue
        if b is not None:
            bufs[n] = b
    if set(listed) != set(bufs) or any(listed[n] is not bufs[n] for n in listed):
        ctx.violation(mon, "named_buffers", f"{target_label} after {seq}: named_buffers() lists {sorted(listed)} while get_buffer finds {sorted(bufs)}", sig=sig, sequence=seq)
        return False
    if prim.dtype is not model.d and prim.dtype != model.d:
        ctx.violation(mon, "declared_dtype", f"{target_label} after {seq}: instrument.dtype is {prim.dtype}, reference says {model.d}", sig=sig, sequence=seq)
        return False
    if set(bufs) != set(model.B):
        ctx.violation(mon, "buffer_names", f"{target_label} after {seq}: buffers {sorted(bufs)} vs reference {sorted(model.B)}", sig=sig, sequence=seq)
        return False
    for n, b in bufs.items():
        if b.dtype != model.B[n]:
            ctx.violation(mon, "buffer_dtype", f"{target_label} after {seq}: buffer {n} has dtype {b.dtype}, reference says {model.B[n]} "
                          f"(declared {model.d}, default {model.g})", sig=sig, sequence=seq, buffer=n)
            return False
        if b.device.type != "cpu":
            ctx.violation(mon, "buffer_device", f"{target_label} after {seq}: buffer {n} on {b.device}", sig=sig, sequence=seq)
            return False
    if seq and seq[-1] == "simulate":
        # "produced in" the declared dtype: a float64 series that is exactly float32-representable was simulated in float32 and upcast
        for n, b in bufs.items():
            if b.dtype == F64 and n != "aux" and b.shape[1] > 1:
                body = b[:, 1:]
                if bool((body.float().double() == body).all()) and not bool((body == body[:, :1]).all()):
                    ctx.violation(mon, "simulated_in_lower_precision", f"{target_label} after {seq}: float64 buffer {n} holds only float32-representable "
                                  f"values - the simulation was not produced in the declared dtype", sig=sig, sequence=seq, buffer=n)
                    return False
    if deriv is not None and len(list(deriv.underliers())) == 1:  # dtype/device of a derivative on several underliers are documented as undefined
        ctx.branch("derivative.alias")
        if deriv.dtype != prim.dtype or deriv.device != prim.device:
            ctx.violation(mon, "derivative_alias", f"{target_label} after {seq}: derivative.dtype/device {deriv.dtype}/{deriv.device} != underlier's "
                          f"{prim.dtype}/{prim.device}", sig=sig, sequence=seq)
            return False
    return True


def run_sequence(ctx, kind, ctor_dtype, wrapper, seq):
    """Run one operation sequence. Returns nothing; records judgements."""
    torch.set_default_dtype(F32)
    mon = "state_machine"
    prim = build(kind, ctor_dtype)
    model = Model(kind, ctor_dtype)
    deriv = None
    prim2 = None
    target = prim
    label = f"{kind}[{ctor_dtype}]"
    if wrapper is not None:
        if wrapper == "spread":
            prim2 = build(kind, ctor_dtype)
            ctx.branch("derivative.two_underliers")
        deriv = {"european": lambda: EuropeanOption(prim, maturity=2 * prim.dt), "lookback": lambda: LookbackOption(prim, maturity=2 * prim.dt),
                 "varswap": lambda: VarianceSwap(prim, maturity=2 * prim.dt), "spread": lambda: Spread(prim, prim2, maturity=2 * prim.dt)}[wrapper]()
        target = deriv
        label = f"{wrapper}({label})"
        if prim2 is not None and not (deriv.ul() is prim and deriv.ul(0) is prim and deriv.ul(1) is prim2):
            ctx.violation(mon, "underlier_index", "ul(i) is not the i-th registered underlier", sig=(label,))
            return
    done = []
    persist = {}
    simulated = cast_seen = False
    try:
        for op in seq:
            ctx.seen(mon)
            if op == "to_int":
                ctx.seen("reject.int_dtype")
                before = {n: (b.dtype, id(b)) for n, b in prim.named_buffers()}
                d0 = prim.dtype
                try:
                    target.to(torch.int32)
                    ctx.violation("reject.int_dtype", "int_accepted", f"{label} after {done}: to(torch.int32) was accepted", sig=(label,) + tuple(done),
                                  sequence=done)
                    return
                except TypeError:
                    after = {n: (b.dtype, id(b)) for n, b in prim.named_buffers()}
                    if after != before or prim.dtype != d0:
                        ctx.violation("reject.int_dtype", "state_changed_by_rejected_cast", f"{label} after {done}: rejected to(int32) changed the state",
                                      sig=(label,) + tuple(done), sequence=done)
                        return
                    ctx.ok("reject.int_dtype", sig=(label, tuple(done)), trivial=not simulated)
                done.append(op)
                continue
            try:
                alt = len(done) % 2 == 1  # alias spellings at odd positions (every operation occurs at every position in the enumeration)
                if alt and op in ("float", "double", "half"):
                    ctx.branch("op.cast_alias_spelling")
                apply(op, target, model, prim, alt)
            except RuntimeError as ex:
                msg = str(ex)
                if op == "simulate" and model.B.get("spot", model.d if model.d is not None else model.g) in (F16, BF16) or (
                        op == "simulate" and (model.d in (F16, BF16))):
                    ctx.unsupported(mon)
                    ctx.note("half_simulation_refused:" + kind)
                    return
                raise
            done.append(op)
            if op == "simulate":
                if cast_seen:
                    ctx.branch("op.simulate_after_cast")
                simulated = True
            elif op in ("register", "register_int", "register_alias"):
                ctx.branch("op.register_buffer" if op != "register_alias" else "op.register_alias")
            elif op.startswith("default"):
                ctx.branch("op.set_default")
            elif op.startswith("to_inst"):
                ctx.branch("op.to_instrument")
                cast_seen = True
            elif op != "to_cpu":
                cast_seen = True
                if simulated:
                    ctx.branch("op.cast_after_simulate")
            if not agree(ctx, mon, prim, model, list(done), label, deriv):
                return
            if prim2 is not None and not agree(ctx, mon, prim2, model, list(done), label + ".second_underlier", None):
                return
            ctx.ok(mon, sig=(label,) + tuple(done), trivial=not (simulated or "register" in done or "register_int" in done or "register_alias" in done))
            # consumers are evaluated after *every* operation with persistent objects (derivative, listed hedge, hedger), so that
            # anything they cache across a cast / re-simulation is exposed
            if simulated and "aux" not in model.B:
                if not criteria(ctx, prim, model, list(done), label):
                    return
                if not derived(ctx, kind, prim, model, deriv, list(done), label, persist):
                    return
    finally:
        torch.set_default_dtype(F32)


def criteria(ctx, prim, model, seq, label):
    """Losses / cash amounts of a P&L formed from the instrument's series carry its dtype - half precisions included where the backend computes them."""
    from pfhedge.nn import EntropicLoss, EntropicRiskMeasure, ExpectedShortfall, IsoelasticLoss

    x = model.B.get("spot")
    if x is None or any(v != x for v in model.B.values()) or prim.spot.shape[1] < 2:
        return True
    mon = "derived.dtype"
    with torch.no_grad():
        pl = prim.spot[:, -1] - prim.spot[:, 0]
        for crit, arg in ((EntropicRiskMeasure(), pl), (EntropicLoss(), pl), (ExpectedShortfall(0.5), pl), (IsoelasticLoss(0.5), prim.spot[:, -1].abs() + 1)):
            for what in ("loss", "cash"):
                if what == "cash" and isinstance(crit, IsoelasticLoss):
                    continue  # (default search: its bracket arithmetic is C19's subject)
                try:
                    out = crit(arg) if what == "loss" else crit.cash(arg)
                except RuntimeError:
                    ctx.unsupported(mon)
                    continue
                ctx.seen(mon)
                name = f"{type(crit).__name__}.{what}"
                if out.dtype != x:
                    ctx.violation(mon, "derived_dtype." + name, f"{label} after {seq}: {name} of a P&L in {x} has dtype {out.dtype}", sig=(label, name, str(x)),
                                  sequence=seq, quantity=name)
                    return False
                if x in (F16, BF16):
                    ctx.branch("derived.criteria_in_half_precision")
                ctx.ok(mon, sig=(label.split("[")[0], name, str(x)))
    return True


def derived(ctx, kind, prim, model, deriv, seq, label, persist):
    """Quantities computed from the current state carry its dtype (float32/float64 only). Returns False after a violation."""
    x = model.B.get("spot")
    if x not in (F32, F64) or any(v != x for v in model.B.values()):
        return True
    if kind in ("cir", "vasicek"):
        return True  # interest-rate instruments: no volatility/variance to feed the hedging features
    mon = "derived.dtype"
    if "d" not in persist:
        persist["d"] = deriv if (deriv is not None and hasattr(deriv, "strike") and hasattr(deriv, "moneyness")) else EuropeanOption(prim, maturity=2 * prim.dt)
        persist["listed"] = EuropeanOption(prim, maturity=persist["d"].maturity, strike=1.1)
        persist["listed"].list(P.bs_pricer, cost=1e-3)
        persist["hedger"] = Hedger(MultiLayerPerceptron(in_features=3, out_features=2, n_layers=1, n_units=4), ["log_moneyness", "time_to_maturity", "volatility"])
        # parameter-free models need no cast: the same hedgers are kept across every cast of the instrument (their state must follow the instrument)
        persist["free"] = [("naked", Hedger(Naked(out_features=1), ["log_moneyness", "prev_hedge"]))]
        if isinstance(persist["d"], (EuropeanOption, LookbackOption)):
            ww = WhalleyWilmott(persist["d"])
            persist["free"].append(("whalley_wilmott", Hedger(ww, ww.inputs())))
    d, listed, hedger = persist["d"], persist["listed"], persist["hedger"]
    if prim.spot.shape[1] != 3:
        return True
    hedger.to(x)
    got = {}
    with torch.no_grad():
        got["payoff"] = d.payoff()
        if deriv is not None and deriv is not d:
            got["own_payoff"] = deriv.payoff()
        got["listed_spot"] = listed.spot
        got["features"] = hedger.get_input(d, None)
        got["moneyness"] = d.moneyness()
        got["time_to_maturity"] = d.time_to_maturity()
        got["max_log_moneyness"] = d.max_log_moneyness(1)
        got["hedge"] = hedger.compute_hedge(d, [prim, listed])
        got["pl"] = hedger.compute_pl(d, [prim, listed])
        got["portfolio"] = hedger.compute_portfolio(d, [prim, listed])
        got["loss"] = hedger.criterion(got["pl"])
        got["bs_delta"] = BlackScholes(d).delta()
        for nm, fh in persist["free"]:
            got[nm + ".hedge"] = fh.compute_hedge(d)
            got[nm + ".pl"] = fh.compute_pl(d)
    for name, v in got.items():
        ctx.seen(mon)
        if v.dtype != x:
            ctx.violation(mon, "derived_dtype." + name, f"{label} after {seq}: {name} has dtype {v.dtype} while every buffer is {x}", sig=(label, name, str(x)),
                          sequence=seq, quantity=name)
            return False
        ctx.ok(mon, sig=(label.split("[")[0], name, str(x)))
    # price / compute_loss re-simulate: they must come back in the declared dtype (or the default when none is declared)
    want = model.d if model.d is not None else model.g
    multi = deriv is not None and len(list(deriv.underliers())) > 1  # (re-simulating one underlier alone would leave the pair with different path counts)
    if want in (F32, F64) and seq and seq[-1] == "simulate" and len(seq) >= 2 and not multi:
        h2 = Hedger(MultiLayerPerceptron(in_features=3, out_features=1, n_layers=1, n_units=4), ["log_moneyness", "time_to_maturity", "volatility"]).to(want)
        d2 = EuropeanOption(prim, maturity=2 * prim.dt)
        with torch.no_grad():
            pr = h2.price(d2, n_paths=3)
            ls = h2.compute_loss(d2, n_paths=3)
            pr2 = h2.price(d2, n_paths=3, n_times=2)  # averages over several simulations: the mean of 0-dim results keeps their dtype
            ls2 = h2.compute_loss(d2, n_paths=3, n_times=2)
        for name, v in (("price", pr), ("compute_loss", ls), ("price(n_times=2)", pr2), ("compute_loss(n_times=2)", ls2)):
            ctx.seen(mon)
            if v.dtype != want:
                ctx.violation(mon, "derived_dtype." + name, f"{label} after {seq}: {name} has dtype {v.dtype}, expected {want}", sig=(label, name, str(want)),
                              sequence=seq, quantity=name)
                return False
            ctx.ok(mon, sig=(label.split("[")[0], name, str(want)))
        # price()/compute_loss() re-simulated the underlier (legitimately): bring the reference model up to date
        model.simulate()
    return True


TARGETS = [(k_, dt_, None) for k_ in PRIMS for dt_ in (None, F64)] + [("brownian", None, "european"), ("heston", F64, "lookback"), ("merton", None, "varswap"),
                                                                        ("brownian", None, "spread")]


def drv_exhaustive(ctx, k, rng):
    """Case k = (target, first operation): all sequences of length <= D that start with that operation."""
    D = 3 if ctx.thorough else 2
    ti, oi = divmod(k, len(OPS))
    kind, ctor_dtype, wrapper = TARGETS[ti]
    first = OPS[oi]
    n = 0
    for depth in range(1, D + 1):
        for tail in itertools.product(OPS, repeat=depth - 1):
            seq = (first,) + tail
            if wrapper is not None and ({"register", "register_int", "register_alias"} & set(seq)):
                continue
            # a sequence needs a simulate or register to say anything beyond the declared dtype; keep the cast-only ones at depth <= 2
            if depth == 3 and not ({"simulate", "register", "register_int", "register_alias"} & set(seq)):
                continue
            run_sequence(ctx, kind, ctor_dtype, wrapper, seq)
            n += 1
    ctx.extra["exhaustive"] = True
    ctx.extra["sequences_enumerated"] = ctx.extra.get("sequences_enumerated", 0) + n
    if k % 37 == 0:
        ctx.sample({"driver": "exhaustive", "target": [kind, str(ctor_dtype), wrapper], "first_op": first, "depth": D, "sequences": n,
                    "example": [first, "simulate", "to_f64"][:D]})


def drv_random(ctx, k, rng):
    kind, ctor_dtype, wrapper = TARGETS[int(rng.integers(len(TARGETS)))]
    L = int(rng.integers(4, 11))
    pool = OPS + ["to_cpu", "default32", "simulate", "simulate"]
    seq = tuple(pick(rng, pool) for _ in range(L))
    if wrapper is not None:
        seq = tuple(o for o in seq if o not in ("register", "register_int", "register_alias"))
    run_sequence(ctx, kind, ctor_dtype, wrapper, seq)
    if k < 5:
        ctx.sample({"driver": "random", "target": [kind, str(ctor_dtype), wrapper], "sequence": list(seq)})


DRIVERS = [
    ("exhaustive", len(TARGETS) * len(OPS), len(TARGETS) * len(OPS), drv_exhaustive),
    ("random", 150, 6000, drv_random),
]
