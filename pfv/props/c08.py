"""C08 - Greeks are the derivatives of the price.

Active monitor: delta/gamma/vega/theta of every Black-Scholes module and functional form are compared
with Richardson-extrapolated central differences of *that module's own price* (float64), and the
automatic Greeks are run on randomly parameterised smooth user pricers under every accepted
parameterisation against numerical derivatives with respect to the actual spot / volatility / time.
"""
import math

import numpy as np
import torch

import pfhedge.autogreek as AG
import pfhedge.nn.functional as F
from pfhedge.nn import BSAmericanBinaryOption
from pfhedge.nn import BSEuropeanBinaryOption
from pfhedge.nn import BSEuropeanOption
from pfhedge.nn import BSLookbackOption

from ..gen import F32, F64, pick, t

RULE = (
    "points (s in [-0.6,0.6], t in [0.02,3] with t != 1 dominating, sigma in [0.08,1], K in {1 and random in [0.3,4]}, running max >= spot on "
    "both sides of the strike incl. barrier already reached with spot back below) x call/put x {module, functional}; Greek = 4th-order "
    "Richardson central difference of the same object's float64 price in spot (1st, 2nd), volatility, time (negated). autogreek: 6 pricer "
    "families with random coefficients x {spot | moneyness+strike | log_moneyness+strike} x {volatility | variance} input "
    "parameterisations x pricer signatures. distinct = (type, greek, via, call, K==1, t==1, max-class)"
)
ASSUMPTIONS = [
    "bound 2e-6 relative + 1e-8*scale; points where the two finite-difference step sizes disagree by more than a tenth of the bound are "
    "skipped as oracle-unreliable (counted)",
    "float64 only (finite differences of float32 prices cannot resolve a Greek)",
]
ANCHORS = ['pfhedge.nn.functional:bs_european_delta',
           'pfhedge.nn.functional:bs_european_gamma',
           'pfhedge.nn.functional:bs_european_vega',
           'pfhedge.nn.functional:bs_european_theta',
           'pfhedge.nn.functional:bs_european_binary_delta',
           'pfhedge.nn.functional:bs_european_binary_gamma',
           'pfhedge.nn.functional:bs_american_binary_delta',
           'pfhedge.nn.functional:bs_american_binary_gamma',
           'pfhedge.autogreek:delta',
           'pfhedge.autogreek:gamma',
           'pfhedge.autogreek:vega',
           'pfhedge.autogreek:theta',
           'pfhedge._utils.parse:parse_spot',
           'pfhedge._utils.parse:parse_volatility']
DECIDING = ["greek.far_otm_zero", "greek.broadcast_invariant", "greek.args_untouched", "greek.alias_invariant", "module.forward_is_delta", "greek.european", "greek.european_binary", "greek.american_binary", "greek.lookback", "autogreek.delta", "autogreek.gamma",
            "autogreek.vega", "autogreek.theta", "autogreek.gamma_from_delta"]
REQUIRED_BRANCHES = ["t!=1", "K!=1", "put", "american_binary.reached_spot_below", "via.module", "via.functional", "alias.spot_at_running_max", "autogreek.create_graph", "greek.broadcast", "tie.spot_at_running_max", "far_out_of_the_money", "autogreek.keyword_only_pricer"]

N = 24


def richardson(f, x, h, order=1):
    """4th-order estimate of f'(x) (order=1) or f''(x) (order=2) with steps h, h/2, h/4; returns (estimate, its uncertainty)."""
    def d(hh):
        if order == 1:
            return (f(x + hh) - f(x - hh)) / (2 * hh)
        return (f(x + hh) - 2 * f(x) + f(x - hh)) / (hh * hh)

    # two successive 4th-order extrapolations (h, h/2) and (h/2, h/4): the second is the estimate, their difference (about 15x the error that
    # is left in the second) is the oracle's own uncertainty - it is large exactly where h is not small against the scale sigma*sqrt(t) of the price
    d1, d2, d3 = d(h), d(h / 2), d(h / 4)
    est1 = (4 * d2 - d1) / 3
    est2 = (4 * d3 - d2) / 3
    return est2, (est2 - est1).abs()


def compare(ctx, mon, name, got, est, dis, scale, sig, pts, rel=2e-6, ab=1e-8, alt=None):
    """`alt` = a second (estimate, uncertainty) pair taken at the evaluation point the library really uses (strike rounded to the default dtype,
    DESIGN 8.2): an element is held if it agrees with either, violated only if both oracles are reliable and it agrees with neither."""
    bound = rel * est.abs() + ab * scale
    reliable = dis <= 50 * bound  # dis = difference of the two extrapolations (see richardson)
    resid = (got - est).abs()
    reliable &= dis <= 1e-3 * (est.abs() + scale)
    okay = reliable & (resid <= bound + dis)
    if alt is not None:
        est2, dis2 = alt
        bound2 = rel * est2.abs() + ab * scale
        reliable2 = (dis2 <= 50 * bound2) & (dis2 <= 1e-3 * (est2.abs() + scale))
        okay = okay | (reliable2 & ((got - est2).abs() <= bound2 + dis2))
        reliable = (reliable & reliable2) | okay
    bad = reliable & ~okay
    nrel = int(reliable.sum())
    ctx.seen(mon, got.numel())
    if int((~reliable).sum()):
        ctx.skipped(mon, "fd_step_sizes_disagree", int((~reliable).sum()))
    if bool(bad.any()):
        i = int(bad.nonzero()[0, 0])
        det = {k_: float(v_[i]) if isinstance(v_, torch.Tensor) and v_.numel() == got.numel() else v_ for k_, v_ in pts.items()}
        ctx.violation(mon, f"{mon}.{name}", f"{name} = {float(got[i])!r} but d(price) = {float(est[i])!r} (bound {float(bound[i]):.3g}) at "
                      + ", ".join(f"{k_}={v_!r}" for k_, v_ in det.items()), sig=sig, observed=float(got[i]), oracle=float(est[i]), **det)
    elif nrel:
        ctx.ok(mon, sig=sig, n=nrel)


def gen(rng):
    s = rng.uniform(-0.6, 0.6, N)
    tt = np.where(rng.random(N) < 0.15, 1.0, 10 ** rng.uniform(math.log10(0.02), math.log10(3), N))
    v = rng.uniform(0.08, 1.0, N)
    u = rng.random(N)
    m = np.where(u < 0.3, s + rng.uniform(0.02, 0.4, N), np.where(u < 0.6, np.maximum(s + 0.02, rng.uniform(-0.3, 0.3, N)), np.maximum(s + 0.05, 0.0 + rng.uniform(0, 0.2, N))))
    m = np.maximum(m, s + 0.02)
    # the running maximum sitting exactly on the strike with the spot below it (option struck at the initial spot, spot has fallen since)
    m = np.where((rng.random(N) < 0.1) & (s < -0.03), 0.0, m)
    return t(s, F64), t(tt, F64), t(v, F64), t(m, F64)


def drv_bs(ctx, k, rng):
    s, tt, v, m = gen(rng)
    K = 1.0 if rng.random() < 0.3 else float(rng.uniform(0.3, 4.0))
    kind = pick(rng, ["european", "european_binary", "american_binary", "lookback"])
    call = True if kind in ("american_binary", "lookback") else bool(rng.random() < 0.5)
    via = pick(rng, ["module", "functional"])
    ctx.branch("via." + via)
    if K != 1.0:
        ctx.branch("K!=1")
    if bool((tt != 1).any()):
        ctx.branch("t!=1")
    if not call:
        ctx.branch("put")
    if kind == "american_binary" and bool(((m >= 0) & (s < 0)).any()):
        ctx.branch("american_binary.reached_spot_below")
    S = K * s.exp()
    path = kind in ("american_binary", "lookback")
    if via == "module":
        mod = {"european": BSEuropeanOption, "european_binary": BSEuropeanBinaryOption, "american_binary": BSAmericanBinaryOption,
               "lookback": BSLookbackOption}[kind]
        mod = mod(call=call, strike=K)

        def price(s_, t_, v_):
            return mod.price(s_, m, t_, v_) if path else mod.price(s_, t_, v_)

        def greek(name):
            fn = getattr(mod, name)
            return fn(s, m, tt, v) if path else fn(s, tt, v)
    else:
        def price(s_, t_, v_):
            if kind == "european":
                return F.bs_european_price(s_, t_, v_, strike=K, call=call)
            if kind == "european_binary":
                return F.bs_european_binary_price(s_, t_, v_, call=call)
            if kind == "american_binary":
                return F.bs_american_binary_price(s_, m, t_, v_)
            return F.bs_lookback_price(s_, m, t_, v_, strike=K)

        def greek(name):
            if kind == "european":
                if name == "delta":
                    return F.bs_european_delta(s, tt, v, call=call)
                return getattr(F, "bs_european_" + name)(s, tt, v, strike=K)
            if kind == "european_binary":
                return getattr(F, "bs_european_binary_" + name)(s, tt, v, call=call, strike=K)
            return getattr(F, f"bs_{kind}_" + name)(s, m, tt, v, strike=K)

    def price_S(S_):
        return price((S_ / K).log(), tt, v)

    mon = "greek." + kind
    scale_p = (S + K) if kind in ("european", "lookback") else torch.ones_like(S)
    mcls = None if not path else ("reached" if bool((m >= 0).all()) else ("mixed" if bool((m >= 0).any()) else "below"))
    base = (kind, via, call, K == 1.0, bool((tt == 1).all()), mcls)
    pts = dict(log_moneyness=s, time_to_maturity=tt, volatility=v, strike=K, call=call, via=via)
    if path:
        pts["max_log_moneyness"] = m
    before = [(z, z.clone(), z._version) for z in (s, tt, v, m)]
    with torch.enable_grad():
        g = {name: greek(name).detach() for name in ("delta", "gamma", "vega", "theta")}
    # the caller's tensors come back with the values they went in with.  (autogreek switches requires_grad on for the tensor it differentiates with
    # respect to when that is the caller's own - volatility, time to maturity, spot; values are untouched and this is not judged, see DESIGN 8.2)
    ctx.seen("greek.args_untouched")
    bad = [i for i, (z, z0, ver) in enumerate(before) if z.grad is not None or z._version != ver or not torch.equal(z, z0)]
    ctx.check("greek.args_untouched", not bad, "argument_modified", f"{kind} Greeks ({via}) changed their argument(s) {[['log_moneyness', 'time_to_maturity', 'volatility', 'max_log_moneyness'][i] for i in bad]} "
              "(value, version counter or .grad)", sig=(kind, via, tuple(bad)))
    for z, _, _ in before:
        z.requires_grad_(False)
    if path:
        # aliasing: the spot sitting at its running maximum, passed as the *same tensor object* for both arguments, is the same point as with an equal copy
        ctx.seen("greek.alias_invariant")
        ctx.branch("alias.spot_at_running_max")
        with torch.enable_grad():
            for name in ("delta", "gamma", "vega", "theta"):
                fn = getattr(mod, name) if via == "module" else (lambda a_, b_, c_, d_, nm=name: getattr(F, f"bs_{kind}_" + nm)(a_, b_, c_, d_, strike=K))
                for z, _, _ in before:
                    z.requires_grad_(False)
                sc = s.detach().clone()
                gb = fn(s, sc, tt, v).detach()
                s.requires_grad_(False)
                ga = fn(s, s, tt, v).detach()
                if not bool(((ga == gb) | (torch.isnan(ga) & torch.isnan(gb))).all()):
                    ctx.violation("greek.alias_invariant", "alias_dependence", f"{kind} {name} ({via}) with log_moneyness and max_log_moneyness given as the same "
                                  f"tensor object differs from the call with an equal copy", sig=(kind, via, name), same_object=ga[:4], equal_copy=gb[:4])
                    break
            else:
                ctx.ok("greek.alias_invariant", sig=(kind, via))
    # Greeks obtained through autogreek form spot = exp(log_moneyness) * as_tensor(strike): a python-float strike is rounded to the default dtype
    # (float32) there, so the derivative is taken at a spot shifted by up to 6e-8 relatively - visible where gamma * S / delta is large
    K_held = float(torch.as_tensor(K))
    S_held = S * (K_held / K)
    if path and rng.random() < 0.5:
        # the spot sitting exactly on its running maximum: spots above it are outside the domain, so the derivative of the price is taken from below
        # (backward differences of the module's own price at S, S-h, S-2h, S-3h; two step sizes give the estimate and its uncertainty)
        ctx.branch("tie.spot_at_running_max")
        mt = s.clone()
        with torch.enable_grad():
            if via == "module":
                gt = {nm: getattr(mod, nm)(s, mt, tt, v).detach() for nm in ("delta", "gamma")}
            else:
                gt = {nm: getattr(F, f"bs_{kind}_" + nm)(s, mt, tt, v, strike=K).detach() for nm in ("delta", "gamma")}
        for z in (s, tt, v, m):
            z.requires_grad_(False)

        def p_tie(S_):
            if via == "module":
                return mod.price((S_ / K).log(), mt, tt, v)
            return F.bs_american_binary_price((S_ / K).log(), mt, tt, v) if kind == "american_binary" else F.bs_lookback_price((S_ / K).log(), mt, tt, v, strike=K)

        def backward(S0, h_, order):
            def one(hh):
                p0, p1, p2, p3 = p_tie(S0), p_tie(S0 - hh), p_tie(S0 - 2 * hh), p_tie(S0 - 3 * hh)
                return (3 * p0 - 4 * p1 + p2) / (2 * hh) if order == 1 else (2 * p0 - 5 * p1 + 4 * p2 - p3) / (hh * hh)
            # three step sizes: two successive extrapolations of the h^2 term; the second is the estimate, their difference (which carries the
            # h^3 term one-sided formulas have) its uncertainty
            a_, b_, c_ = one(h_), one(h_ / 2), one(h_ / 4)
            e1_, e2_ = (4 * b_ - a_) / 3, (4 * c_ - b_) / 3
            return e2_, (e2_ - e1_).abs()

        K_h = float(torch.as_tensor(K))
        with torch.no_grad():
            for nm, order, hrel, sc_, kw_ in (("delta", 1, 1e-3, scale_p / S, {}), ("gamma", 2, 2e-3, scale_p / S.square(), dict(rel=2e-5, ab=1e-7))):
                est, unc = backward(S, hrel * S, order)
                alt = backward(S * (K_h / K), hrel * S, order) if K_h != K else None
                compare(ctx, mon, nm + "@tie", gt[nm], est, unc, sc_, base + (nm, "tie"), dict(pts, max_log_moneyness=mt), alt=alt, **kw_)
    if kind in ("european", "european_binary") and call and rng.random() < 0.4:
        # far out of the money (the spot, or its square, underflows towards zero while maturity and volatility are ordinary): the price is flat zero
        # there (checked), so every Greek is zero - not NaN from an underflowing denominator
        ctx.branch("far_out_of_the_money")
        ctx.seen("greek.far_otm_zero")
        big = [30.0, 60.0, 100.0] if rng.random() < 0.5 else [200.0, 373.0, 400.0]
        sx = -t(np.array([pick(rng, big) for _ in range(N)]), F64)  # (call side: the spot goes to zero and stays representable)
        for dt_ in (F64, F32):
            sx_, tx_, vx_ = sx.to(dt_), tt.to(dt_), v.to(dt_)
            if via == "module":
                fns = {nm: (lambda nm=nm: getattr(mod, nm)(sx_, tx_, vx_)) for nm in ("price", "delta", "gamma", "vega", "theta")}
            elif kind == "european":
                fns = {"price": lambda: F.bs_european_price(sx_, tx_, vx_, strike=K, call=call), "delta": lambda: F.bs_european_delta(sx_, tx_, vx_, call=call),
                       "gamma": lambda: F.bs_european_gamma(sx_, tx_, vx_, strike=K), "vega": lambda: F.bs_european_vega(sx_, tx_, vx_, strike=K),
                       "theta": lambda: F.bs_european_theta(sx_, tx_, vx_, strike=K)}
            else:
                fns = {"price": lambda: F.bs_european_binary_price(sx_, tx_, vx_, call=call)}
                fns.update({nm: (lambda nm=nm: getattr(F, "bs_european_binary_" + nm)(sx_, tx_, vx_, call=call, strike=K)) for nm in ("delta", "gamma", "vega", "theta")})
            with torch.enable_grad():
                vals = {nm: f_().detach() for nm, f_ in fns.items()}
            if not bool((vals["price"].abs() <= 1e-300).all()):
                continue
            for nm in ("delta", "gamma", "vega", "theta"):
                if not bool((vals[nm].abs() <= 1e-30).all()):  # (NaN fails the comparison)
                    ctx.violation("greek.far_otm_zero", "far_otm." + kind + "." + nm, f"{kind} {nm} ({via}, {dt_}) far out of the money, where the price is flat zero: "
                                  f"{vals[nm].reshape(-1)[:4].tolist()} at log_moneyness {sx_.reshape(-1)[:4].tolist()}", sig=(kind, via, nm, str(dt_)), log_moneyness=sx_[:4],
                                  time_to_maturity=tx_[:4], volatility=vx_[:4], observed=vals[nm][:4])
                    break
            else:
                ctx.ok("greek.far_otm_zero", sig=(kind, via, str(dt_)))
    # broadcasting: a volatility / maturity shared by all points (0-dim or one element) gives, point by point, what the full-shape call gives
    if rng.random() < 0.4:
        ctx.seen("greek.broadcast_invariant")
        ctx.branch("greek.broadcast")
        j = int(rng.integers(N))
        form = pick(rng, ["0dim", "one"])
        which = pick(rng, ["volatility", "time_to_maturity", "both"])
        vb = (v[j] if form == "0dim" else v[j:j + 1]).clone() if which in ("volatility", "both") else v
        tb = (tt[j] if form == "0dim" else tt[j:j + 1]).clone() if which in ("time_to_maturity", "both") else tt
        vf = v[j].expand(N).clone() if which in ("volatility", "both") else v
        tf = tt[j].expand(N).clone() if which in ("time_to_maturity", "both") else tt
        with torch.enable_grad():
            for name in ("delta", "gamma", "vega", "theta"):
                if via == "module" and path and name in ("vega", "theta"):
                    # the path-dependent modules differentiate their price with respect to the caller's own volatility / maturity tensor: for a shared
                    # (0-dim / one-element) tensor autograd returns the sum over the points. The modules document equal shapes only (DESIGN 8.2).
                    ctx.skipped("greek.broadcast_invariant", "module_greek_by_autograd_wrt_shared_tensor")
                    continue
                if via == "module":
                    fn = getattr(mod, name)
                    a_, b_ = (fn(s, m, tb, vb), fn(s, m, tf, vf)) if path else (fn(s, tb, vb), fn(s, tf, vf))
                else:
                    if kind == "european":
                        fn = (lambda t_, v_: F.bs_european_delta(s, t_, v_, call=call)) if name == "delta" else (lambda t_, v_, nm=name: getattr(F, "bs_european_" + nm)(s, t_, v_, strike=K))
                    elif kind == "european_binary":
                        fn = lambda t_, v_, nm=name: getattr(F, "bs_european_binary_" + nm)(s, t_, v_, call=call, strike=K)  # noqa: E731
                    else:
                        fn = lambda t_, v_, nm=name: getattr(F, f"bs_{kind}_" + nm)(s, m, t_, v_, strike=K)  # noqa: E731
                    a_, b_ = fn(tb, vb), fn(tf, vf)
                a_, b_ = a_.detach(), b_.detach()
                if a_.shape != b_.shape or not bool((((a_ - b_).abs() <= 1e-9 * (b_.abs() + 1)) | (torch.isnan(a_) & torch.isnan(b_))).all()):
                    ctx.violation("greek.broadcast_invariant", "broadcast", f"{kind} {name} ({via}) with a shared {which} given as a {form} tensor: shape "
                                  f"{tuple(a_.shape)} / values differ from the full-shape call (shape {tuple(b_.shape)})", sig=(kind, via, name, which, form),
                                  shared=a_.reshape(-1)[:4], full=b_.reshape(-1)[:4])
                    break
            else:
                ctx.ok("greek.broadcast_invariant", sig=(kind, via, which, form))
        for z in (s, tt, v, m):
            z.requires_grad_(False)
    with torch.no_grad():
        hS = 2e-3 * S
        est, dis = richardson(price_S, S, hS, 1)
        alt = richardson(price_S, S_held, hS, 1) if K_held != K else None
        compare(ctx, mon, "delta", g["delta"], est, dis, scale_p / S, base + ("delta",), pts, alt=alt)
        est, dis = richardson(price_S, S, 4e-3 * S, 2)
        alt = richardson(price_S, S_held, 4e-3 * S, 2) if K_held != K else None
        compare(ctx, mon, "gamma", g["gamma"], est, dis, scale_p / S.square(), base + ("gamma",), pts, rel=2e-5, ab=1e-7, alt=alt)
        est, dis = richardson(lambda x: price(s, tt, x), v, 2e-3 * v, 1)
        compare(ctx, mon, "vega", g["vega"], est, dis, scale_p / v, base + ("vega",), pts)
        est, dis = richardson(lambda x: price(s, x, v), tt, 2e-3 * tt, 1)
        compare(ctx, mon, "theta", g["theta"], -est, dis, scale_p / tt, base + ("theta",), pts)
    if k < 5:
        ctx.sample({"driver": "bs", "kind": kind, "via": via, "call": call, "strike": K, "s": s[:3], "t": tt[:3], "sigma": v[:3],
                    "m": m[:3] if path else None, "delta": g["delta"][:3], "gamma": g["gamma"][:3], "vega": g["vega"][:3], "theta": g["theta"][:3]})


# ---- autogreek on user pricers ---------------------------------------------------------------------
def make_g(rng):
    a = rng.uniform(0.3, 1.5, 6)
    fam = int(rng.integers(6))

    def g(S, sig, tau, K):
        if fam == 0:
            return a[0] * S.pow(a[1]) * torch.exp(-a[2] * sig.square() * tau) + a[3] * K
        if fam == 1:
            return a[0] * torch.tanh(a[1] * (S - K)) * (tau + a[2]).sqrt() + a[3] * sig * S
        if fam == 2:
            return a[0] * torch.log1p(S / K) * sig + a[1] * tau.square() * S + a[2] * sig.pow(3)
        if fam == 3:
            d = (S / K).log() / (sig * tau.sqrt()) + a[0] * sig * tau.sqrt()
            return S * torch.erf(d) - a[1] * K * torch.exp(-a[2] * tau)
        if fam == 4:
            return a[0] * (S * S + K * K).sqrt() * torch.exp(-a[1] * tau * sig) + a[2] * torch.sin(a[3] * S) * sig.square()
        return a[0] * S / (a[1] + sig.square() * tau + S / K) + a[2] * torch.cos(a[3] * tau) * (S / K).pow(2)

    return g, fam


def drv_autogreek(ctx, k, rng):
    g, fam = make_g(rng)
    n = 8
    S = t(rng.uniform(0.5, 2.0, n), F64)
    sig = t(rng.uniform(0.1, 0.8, n), F64)
    tau = t(rng.uniform(0.05, 2.0, n), F64)
    Kf = float(rng.uniform(0.5, 2.0))
    K = torch.full((n,), Kf, dtype=F64)
    sigform = pick(rng, ["volatility", "variance"])
    spotform = pick(rng, ["spot", "moneyness", "log_moneyness"])

    # the pricer's own signature (what it wants to receive)
    psig = pick(rng, ["spot_vol", "mon_var", "logmon_vol", "spot_var", "mon_vol"])

    def pricer_spot_vol(spot, volatility, time_to_maturity, strike):
        return g(spot, volatility, time_to_maturity, strike)

    def pricer_mon_var(moneyness, variance, time_to_maturity, strike):
        return g(moneyness * strike, variance.sqrt(), time_to_maturity, strike)

    def pricer_logmon_vol(log_moneyness, volatility, time_to_maturity, strike):
        return g(log_moneyness.exp() * strike, volatility, time_to_maturity, strike)

    def pricer_spot_var(spot, variance, time_to_maturity, strike):
        return g(spot, variance.sqrt(), time_to_maturity, strike)

    def pricer_mon_vol(moneyness, volatility, time_to_maturity, strike):
        return g(moneyness * strike, volatility, time_to_maturity, strike)

    pricer = {"spot_vol": pricer_spot_vol, "mon_var": pricer_mon_var, "logmon_vol": pricer_logmon_vol, "spot_var": pricer_spot_var,
              "mon_vol": pricer_mon_vol}[psig]
    style = pick(rng, ["plain", "plain", "keyword_only", "partial"])
    if style != "plain":
        # the same pricer with keyword-only parameters (written with `*`, or produced by functools.partial fixing a middle argument by keyword): the
        # automatic Greeks hand over exactly the parameters the signature names, whatever their kind
        import functools
        import inspect as _inspect

        names_ = list(_inspect.signature(pricer).parameters)
        base_pricer = pricer
        if style == "keyword_only":
            first, rest = names_[0], names_[1:]
            ns = {"base": base_pricer}
            exec(f"def kwo({first}, *, {', '.join(rest)}):\n    return base({', '.join(names_)})", ns)
            pricer = ns["kwo"]
        else:
            pricer = functools.partial(base_pricer, **{names_[1]: None})  # the fixed value is overridden by the caller's keyword; the rest become keyword-only
        ctx.branch("autogreek.keyword_only_pricer")
    params = {"time_to_maturity": tau.clone(), "strike": K.clone()}
    if spotform == "spot":
        params["spot"] = S.clone()
    elif spotform == "moneyness":
        params["moneyness"] = S / K
    else:
        params["log_moneyness"] = (S / K).log()
    if sigform == "volatility":
        params["volatility"] = sig.clone()
    else:
        params["variance"] = sig.square()
    if rng.random() < 0.5:
        params["max_log_moneyness"] = torch.zeros(n, dtype=F64)  # a parameter the pricer does not take

    # which parameters does each greek need to be able to hand to the pricer?
    needs_spot = "spot" in psig or "mon" in psig
    sig_in_pricer = "vol" if psig.endswith("vol") else "var"
    sigv = pick(rng, ["S", "sig", "tau"])
    pts = dict(spot=S, volatility=sig, time_to_maturity=tau, strike=Kf, family=fam, pricer_signature=psig, spot_given_as=spotform, vol_given_as=sigform)
    base = (fam, psig, spotform, sigform)
    scale = (g(S, sig, tau, K).abs() + S + K).detach()

    # create_graph=True keeps the Greek differentiable; its value is the same
    cg = bool(rng.random() < 0.3)
    cgkw = {"create_graph": True} if cg else {}

    def run(name, fn):
        try:
            o = fn()
            if cg and name != "gfd":
                ctx.branch("autogreek.create_graph")  # (a Greek that is constant in the differentiated variable legitimately carries no graph: values only)
            return o.detach()
        except Exception as ex:  # parameterisation legitimately insufficient for this pricer?
            return ex

    # delta / gamma need the pricer's volatility argument to be present in params as given (autogreek.delta does not convert sigma)
    sigma_available = (sig_in_pricer == "vol" and sigform == "volatility") or (sig_in_pricer == "var" and sigform == "variance")
    spot_available_for_vega = (("spot" in psig and spotform == "spot") or (psig.startswith("mon_") and spotform == "moneyness")
                               or (psig.startswith("logmon") and spotform == "log_moneyness"))
    with torch.no_grad():
        dS, disS = richardson(lambda x: g(x, sig, tau, K), S, 2e-3 * S, 1)
        d2S, dis2S = richardson(lambda x: g(x, sig, tau, K), S, 4e-3 * S, 2)
        dV, disV = richardson(lambda x: g(S, x, tau, K), sig, 2e-3 * sig, 1)
        dT, disT = richardson(lambda x: g(S, sig, x, K), tau, 2e-3 * tau, 1)
    if sigma_available:
        out = run("delta", lambda: AG.delta(pricer, **cgkw, **{k_: v_.clone() if isinstance(v_, torch.Tensor) else v_ for k_, v_ in params.items()}))
        if isinstance(out, Exception):
            ctx.violation("autogreek.delta", "autogreek.delta.exception", f"autogreek.delta raised {out!r}", sig=base, **pts)
        else:
            compare(ctx, "autogreek.delta", "delta", out, dS, disS, scale / S, base + ("delta",), pts)
        out = run("gamma", lambda: AG.gamma(pricer, **cgkw, **{k_: v_.clone() if isinstance(v_, torch.Tensor) else v_ for k_, v_ in params.items()}))
        if isinstance(out, Exception):
            ctx.violation("autogreek.gamma", "autogreek.gamma.exception", f"autogreek.gamma raised {out!r}", sig=base, **pts)
        else:
            compare(ctx, "autogreek.gamma", "gamma", out, d2S, dis2S, scale / S.square(), base + ("gamma",), pts, rel=2e-5, ab=1e-7)
        # gamma_from_delta: differentiate a delta function with respect to the spot
        def delta_fn(**kw):
            return AG.delta(pricer, create_graph=True, **kw)

        def delta_fn_sig(spot, volatility=None, variance=None, time_to_maturity=None, strike=None, moneyness=None, log_moneyness=None):
            kw = {"spot": spot, "time_to_maturity": time_to_maturity, "strike": strike}
            if volatility is not None and sig_in_pricer == "vol":
                kw["volatility"] = volatility
            if variance is not None and sig_in_pricer == "var":
                kw["variance"] = variance
            return AG.delta(pricer, create_graph=True, **kw)

        out = run("gfd", lambda: AG.gamma_from_delta(delta_fn_sig, **{k_: v_.clone() if isinstance(v_, torch.Tensor) else v_ for k_, v_ in params.items()
                                                                        if k_ != "max_log_moneyness"}))
        if isinstance(out, Exception):
            ctx.violation("autogreek.gamma_from_delta", "autogreek.gamma_from_delta.exception", f"gamma_from_delta raised {out!r}", sig=base, **pts)
        else:
            compare(ctx, "autogreek.gamma_from_delta", "gamma_from_delta", out, d2S, dis2S, scale / S.square(), base + ("gfd",), pts, rel=2e-5, ab=1e-7)
    if spot_available_for_vega:
        out = run("vega", lambda: AG.vega(pricer, **cgkw, **{k_: v_.clone() if isinstance(v_, torch.Tensor) else v_ for k_, v_ in params.items()}))
        if isinstance(out, Exception):
            ctx.violation("autogreek.vega", "autogreek.vega.exception", f"autogreek.vega raised {out!r}", sig=base, **pts)
        else:
            compare(ctx, "autogreek.vega", "vega", out, dV, disV, scale / sig, base + ("vega",), pts)
    if spot_available_for_vega and sigma_available:
        out = run("theta", lambda: AG.theta(pricer, **cgkw, **{k_: v_.clone() if isinstance(v_, torch.Tensor) else v_ for k_, v_ in params.items()}))
        if isinstance(out, Exception):
            ctx.violation("autogreek.theta", "autogreek.theta.exception", f"autogreek.theta raised {out!r}", sig=base, **pts)
        else:
            compare(ctx, "autogreek.theta", "theta", out, -dT, disT, scale / tau, base + ("theta",), pts)
    if k < 3:
        ctx.sample({"driver": "autogreek", "family": fam, "pricer_signature": psig, "spot_given_as": spotform, "vol_given_as": sigform,
                    "S": S[:3], "sigma": sig[:3], "tau": tau[:3], "K": Kf})


def drv_plumbing(ctx, k, rng):
    """The delta a hedger obtains by feeding a pricing module its own `inputs()` features equals the module's delta on the derivative's state."""
    from pfhedge.instruments import AmericanBinaryOption, BrownianStock, EuropeanBinaryOption, EuropeanOption, HestonStock, LookbackOption
    from pfhedge.nn import BlackScholes, Hedger

    stock = BrownianStock(sigma=float(rng.uniform(0.1, 0.6)), dtype=F64) if rng.random() < 0.6 else HestonStock(dtype=F64)
    kind = pick(rng, ["european", "european_binary", "american_binary", "lookback"])
    K = float(pick(rng, [1.0, 0.9, 1.3]))
    call = True if kind in ("american_binary", "lookback") else bool(rng.random() < 0.5)
    cls = {"european": EuropeanOption, "european_binary": EuropeanBinaryOption, "american_binary": AmericanBinaryOption, "lookback": LookbackOption}[kind]
    d = cls(stock, call=call, strike=K, maturity=int(pick(rng, [3, 8])) / 250)
    d.simulate(n_paths=3, init_state=((float(K * math.exp(rng.uniform(-0.1, 0.1))),) if isinstance(stock, BrownianStock) else None))
    m = BlackScholes(d)
    mon = "module.forward_is_delta"
    ctx.seen(mon)
    hedge = Hedger(m, m.inputs()).compute_hedge(d).squeeze(1)
    direct = m.delta()
    path = kind in ("american_binary", "lookback")
    want_inputs = ["log_moneyness"] + (["max_log_moneyness"] if path else []) + ["time_to_maturity", "volatility"]
    ok = list(m.inputs()) == want_inputs and hedge.shape == direct.shape and bool(torch.equal(hedge[:, :-1], direct[:, :-1]) or
                                                                                 torch.allclose(hedge[:, :-1], direct[:, :-1], rtol=1e-12, atol=1e-14, equal_nan=True))
    ctx.check(mon, ok, "forward_vs_delta", f"Hedger(BlackScholes({cls.__name__}), inputs()) does not reproduce the module's delta (inputs {list(m.inputs())})",
              sig=(kind, call, type(stock).__name__), hedge=hedge[0, :4], delta=direct[0, :4], inputs=list(m.inputs()))


DRIVERS = [
    ("plumbing", 40, 1500, drv_plumbing),
    ("bs", 300, 20000, drv_bs),
    ("autogreek", 200, 10000, drv_autogreek),
]
