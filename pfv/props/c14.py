"""C14 - loss gradients through the hedger are the true gradients.

For frozen simulated buffers the scalar loss(theta) = criterion(hedger.compute_portfolio(d, hedge),
d.payoff()) is evaluated by the real code; its autograd gradient (taken once, under anomaly detection)
is compared parameter by parameter with Richardson central differences of the same scalar on the same
paths (float64).  Evaluation-only quantities must carry no graph.
"""
import math

import numpy as np
import torch

from pfhedge.features import ModuleOutput
from pfhedge.nn import Clamp
from pfhedge.nn import EntropicLoss
from pfhedge.nn import LeakyClamp
from pfhedge.nn import EntropicRiskMeasure
from pfhedge.nn import ExpectedShortfall
from pfhedge.nn import Hedger
from pfhedge.nn import IsoelasticLoss
from pfhedge.nn import MultiLayerPerceptron
from pfhedge.nn import QuadraticCVaR
from pfhedge.nn.modules.loss import OCE

from .. import pipelines as P
from ..gen import F64, pick

RULE = (
    "configurations: smooth models {Linear, MLP with tanh/softplus hidden and {identity, tanh, sigmoid} output activation, user recurrent cell, no-transaction-band net (Clamp / LeakyClamp with trainable tensor bounds), "
    "module-output feature with its own parameters} x feature sets with/without prev_hedge x cost {0,1e-3,1e-2} x hedge lists (H in 1..2, listed "
    "option) x criteria {entropic risk, ES, quadratic CVaR (wide and concentrated P&L), entropic loss, isoelastic (payoff shifted), OCE incl. its "
    "w, MSELoss} x both evaluation branches x train/eval mode x stocks x derivatives; every parameter (<= 80 per model) is differenced. "
    "distinct = (model, branch, criterion, cost>0, H, mode)"
)
ASSUMPTIONS = [
    "float64; bound 2e-6 relative to the gradient norm (2e-4 for quadratic CVaR: the bisection makes the value piecewise smooth at 1e-6 x range); "
    "parameters where the two finite-difference step sizes disagree (kinks of |.| in the cost term, order statistics) are skipped and counted",
    "the finite-difference oracle differentiates the very function the library evaluates (so a refactored-but-equal forward cannot raise an alarm)",
]
ANCHORS = ['pfhedge.nn.modules.hedger:Hedger.compute_hedge',
           'pfhedge.nn.functional:pl',
           'pfhedge._utils.hook:save_prev_output',
           'pfhedge.nn.modules.hedger:Hedger.compute_loss',
           'pfhedge.nn.modules.hedger:Hedger.price',
           'pfhedge.nn.functional:quadratic_cvar']
DECIDING = ["grad.matches_fd", "nograd.no_graph", "grad.enable_grad_has_graph"]
REQUIRED_BRANCHES = ["grad_after_no_grad_pass", "branch.stepwise", "branch.vectorised", "cost>0", "criterion.QuadraticCVaR.concentrated", "mode.eval", "mode.train",
                     "output_activation.saves_output", "H>1", "model.clamp_with_parameter_dependent_bounds", "prev_hedge.through_parameter_free_module_output", "parameter_point.zero_output_layer", "model.random_layer_in_train_mode", "after_fine_tuning_one_layer", "long_time_grid_with_prev_hedge"]


def _u(x):
    return -torch.exp(-x)


def make_criterion(rng):
    kind = pick(rng, ["erm", "es", "qcvar", "qcvar", "el", "iso", "oce", "mse"])
    if kind == "erm":
        return EntropicRiskMeasure(float(pick(rng, [1.0, 5.0]))), kind
    if kind == "es":
        return ExpectedShortfall(float(pick(rng, [0.3, 0.55]))), kind
    if kind == "qcvar":
        return QuadraticCVaR(float(pick(rng, [1.5, 10.0]))), kind
    if kind == "el":
        return EntropicLoss(float(pick(rng, [1.0, 2.0]))), kind
    if kind == "iso":
        return IsoelasticLoss(float(pick(rng, [0.5, 1.0]))), kind
    if kind == "oce":
        c = OCE(_u).to(F64)
        with torch.no_grad():
            c.w.fill_(float(pick(rng, [0.0, 0.2])))
        return c, kind
    return torch.nn.MSELoss(), kind


class NoTransactionBand(torch.nn.Module):
    """The README's no-transaction-band network: the previous hedge clamped into a band whose (trainable) edges come out of a net."""

    def __init__(self, n_in, leaky):
        super().__init__()
        self.net = MultiLayerPerceptron(in_features=n_in - 1, out_features=2, n_layers=1, n_units=4, activation=torch.nn.Tanh())
        self.centre = torch.nn.Linear(n_in - 1, 1)
        self.clamp = LeakyClamp(0.1) if leaky else Clamp()

    def forward(self, input):
        prev, x = input[..., [-1]], input[..., :-1]
        width = torch.nn.functional.softplus(self.net(x))
        centre = torch.sigmoid(self.centre(x))
        return self.clamp(prev, min=centre - width[..., [0]], max=centre + width[..., [1]])


def make_model(rng, n_in, n_out, prev):
    kind = pick(rng, ["linear", "mlp", "mlp", "recurrent", "dropout"] + (["ntb"] if n_out == 1 else []) if prev else ["linear", "mlp", "mlp", "dropout"])
    if kind == "dropout":
        # a random layer: with the random state fixed before every evaluation the loss is a deterministic function of the parameters, and its
        # gradient is the gradient for *that* mask
        return torch.nn.Sequential(torch.nn.Linear(n_in, 6), torch.nn.Tanh(), torch.nn.Dropout(0.3), torch.nn.Linear(6, n_out)), kind, "identity"
    if kind == "ntb":
        leaky = bool(rng.random() < 0.5)
        return NoTransactionBand(n_in, leaky), "ntb_leaky" if leaky else "ntb", "clamp"
    if kind == "linear":
        return torch.nn.Linear(n_in, n_out), kind, "identity"
    if kind == "recurrent":
        return P.Recurrent(n_in, n_out), kind, "identity"
    oa = pick(rng, ["identity", "tanh", "sigmoid"])
    out_act = {"identity": torch.nn.Identity(), "tanh": torch.nn.Tanh(), "sigmoid": torch.nn.Sigmoid()}[oa]
    act = pick(rng, [torch.nn.Tanh(), torch.nn.Softplus()])
    return MultiLayerPerceptron(in_features=n_in, out_features=n_out, n_layers=int(pick(rng, [1, 2])), n_units=4, activation=act, out_activation=out_act), kind, oa


def drv_grad(ctx, k, rng):
    stock = P.make_stock(rng, pick(rng, ["brownian", "heston", "merton", "kou", "localvol"]), dtype=F64, cost=float(pick(rng, [0.0, 1e-3, 1e-2])) if k % 16 != 9 else 0.0,
                         dt=float(pick(rng, [1 / 250, 1 / 52])))
    long_grid = k % 64 == 33  # deterministic coverage: a recurrence over a long time grid (300 steps), small linear model
    derivative = P.make_derivative(rng, stock, pick(rng, ["european", "lookback", "european", "forward_start", "european_binary"]) if not long_grid else "european",
                                   n_steps=int(pick(rng, [2, 3, 5])) if not long_grid else 300, clauses=False)
    if long_grid:
        ctx.branch("long_time_grid_with_prev_hedge")
    crit, ck = make_criterion(rng)
    if k % 8 == 3:
        crit, ck = QuadraticCVaR(10.0), "qcvar"  # deterministic coverage: short-dated hedge P&L is concentrated (mean(max - x) < 1/(2 lam))
    if ck == "iso":
        derivative.add_clause("shift", lambda d, p: p - 3.0)  # keeps portfolio - payoff positive (domain of the isoelastic utility)
    hk = pick(rng, ["ul", "ul", "ul+eu", "none"])
    hedge, hk = P.make_hedge(rng, derivative, hk)
    n_h = 1 if hedge is None else len(hedge)
    if n_h > 1:
        ctx.branch("H>1")
    option = derivative._pfv_kind in P.OPTIONS
    feats = ["log_moneyness", "time_to_maturity", "volatility"] if option else ["underlier_spot", "volatility", "variance"]
    extra = pick(rng, ["none", "module_output", "max"])
    params_extra = []
    if extra == "module_output":
        inner = torch.nn.Linear(2, 1).to(F64)
        feats = feats + [ModuleOutput(inner, ["underlier_spot", "volatility"])]
        params_extra = list(inner.parameters())
    elif extra == "max" and option:
        feats = feats + ["max_log_moneyness"]
    prev = bool(rng.random() < 0.5)
    if k % 8 == 7:
        prev = True  # deterministic coverage: a band model whose clamp bounds carry the parameters (below)
    if k % 8 == 1 or long_grid:
        prev = True  # deterministic coverage: prev_hedge through a parameter-free module-output feature (below)
    if k % 8 == 5:
        prev = False  # deterministic coverage: vectorised branch with an output activation that saves its output
    if prev:
        # the previous hedge as the plain feature, or passed through a parameter-free module-output feature (a squash / band): the gradient
        # flows through the module's *input* even though the module itself has nothing to train
        wrap = pick(rng, ["plain", "plain", "tanh", "identity"]) if k % 8 != 1 else "tanh"
        if wrap == "plain":
            feats = feats + ["prev_hedge"]
        else:
            feats = feats + [ModuleOutput(torch.nn.Tanh() if wrap == "tanh" else torch.nn.Identity(), ["prev_hedge"])]
            ctx.branch("prev_hedge.through_parameter_free_module_output")
    n_in = len(feats) + (n_h - 1 if prev else 0)
    model, mk, oa = make_model(rng, n_in, n_h, prev)
    if k % 8 == 5:
        model, mk, oa = MultiLayerPerceptron(in_features=n_in, out_features=n_h, n_layers=1, n_units=4, activation=torch.nn.Tanh(), out_activation=torch.nn.Tanh()), "mlp", "tanh"
    if k % 8 == 7 and n_h == 1:
        model, mk, oa = NoTransactionBand(n_in, k % 16 == 7), ("ntb_leaky" if k % 16 == 7 else "ntb"), "clamp"
    if k % 32 == 21:
        model, mk, oa = MultiLayerPerceptron(in_features=n_in, out_features=n_h, n_layers=2, n_units=4, activation=torch.nn.Tanh()), "mlp", "identity"
    if k % 16 == 9 or long_grid:
        model, mk, oa = torch.nn.Linear(n_in, n_h), "linear", "identity"  # deterministic coverage of the zero-output-layer point (below)
    if mk.startswith("ntb"):
        ctx.branch("model.clamp_with_parameter_dependent_bounds")
    model.to(F64)
    if oa in ("tanh", "sigmoid") and not prev:
        ctx.branch("output_activation.saves_output")
    hedger = Hedger(model, feats, criterion=crit).to(F64)
    mode = pick(rng, ["train", "eval"])
    hedger.train() if mode == "train" else hedger.eval()
    ctx.branch("mode." + mode)
    ctx.branch("branch.stepwise" if prev else "branch.vectorised")
    if stock.cost > 0:
        ctx.branch("cost>0")
    n_paths = int(pick(rng, [6, 15])) if not long_grid else 3
    derivative.simulate(n_paths=n_paths)
    params = [p for p in hedger.parameters()] + [p for p in params_extra if all(p is not q for q in hedger.parameters())]
    # de-duplicate while keeping order
    seen, plist = set(), []
    for p in params:
        if id(p) not in seen:
            seen.add(id(p))
            plist.append(p)
    with torch.no_grad():
        for p in plist:
            p.add_(torch.as_tensor(rng.standard_normal(tuple(p.shape)) * 0.3).to(p))
    zero_out = False
    if (rng.random() < 0.12 or k % 16 == 9) and mk in ("linear", "mlp", "dropout") and oa == "identity" and stock.cost == 0:
        # a particular (and common: zero initialisation) parameter point: the last layer is exactly zero, so every position is exactly zero.
        # Without transaction costs the loss is smooth there and its gradient with respect to that layer is not zero.
        last = [m_ for m_ in hedger.model.modules() if isinstance(m_, torch.nn.Linear)][-1]
        with torch.no_grad():
            last.weight.zero_()
            last.bias.zero_()
        zero_out = True
        ctx.branch("parameter_point.zero_output_layer")
    mask_seed = int(rng.integers(1 << 30))
    if mk == "dropout" and mode == "train":
        ctx.branch("model.random_layer_in_train_mode")

    def loss():
        torch.manual_seed(mask_seed)
        return hedger.criterion(hedger.compute_portfolio(derivative, hedge), derivative.payoff())

    if (rng.random() < 0.15 or k % 32 == 21) and mk in ("mlp", "dropout") and not long_grid:
        # the hedger has been fine-tuned before (one epoch, no validation, an optimiser over the last layer only): every parameter is still a parameter
        from torch.optim import SGD

        last = [m_ for m_ in hedger.model.modules() if isinstance(m_, torch.nn.Linear)][-1]
        hedger.fit(derivative, hedge, n_epochs=1, n_paths=4, verbose=False, validation=False, optimizer=SGD(last.parameters(), lr=1e-3))
        hedger.train() if mode == "train" else hedger.eval()
        derivative.simulate(n_paths=n_paths)
        ctx.branch("after_fine_tuning_one_layer")
    if rng.random() < 0.5:
        # an evaluation-only pass first (as fit()'s validation does): nothing it leaves behind may cut the graph of the next pass
        with torch.no_grad():
            loss()
            hedger.compute_hedge(derivative, hedge)
        ctx.branch("grad_after_no_grad_pass")

    mon = "grad.matches_fd"
    sig = (mk, oa, "stepwise" if prev else "vectorised", ck, stock.cost > 0, n_h, mode, extra)
    desc = dict(model=mk, out_activation=oa, prev_hedge=prev, criterion=repr(crit), cost=stock.cost, hedge=hk, mode=mode, extra_feature=extra,
                stock=stock._pfv_kind, derivative=derivative._pfv_kind, n_paths=n_paths)
    with torch.autograd.set_detect_anomaly(True):
        try:
            L = loss()
            if not torch.isfinite(L):
                ctx.skipped(mon, "non_finite_loss")
                return
            grads = torch.autograd.grad(L, plist, allow_unused=True)
        except RuntimeError as ex:
            ctx.seen(mon)
            key = "backward.exception"
            if "inplace" in str(ex):
                key = "backward.inplace_modification"
            ctx.violation(mon, key, f"backward through the hedger raised: {str(ex)[:200]}", sig=sig, desc=desc)
            return
    if ck == "qcvar":
        with torch.no_grad():
            plv = hedger.compute_portfolio(derivative, hedge) - derivative.payoff()
            if float((plv.max() - plv).mean()) < 1 / (2 * crit.lam):
                ctx.branch("criterion.QuadraticCVaR.concentrated")
    L0 = float(L)
    gflat = torch.cat([(g if g is not None else torch.zeros_like(p)).reshape(-1) for g, p in zip(grads, plist)])
    gnorm = float(gflat.norm()) + 1e-12
    rel = 2e-4 if ck == "qcvar" else 2e-6
    idx = 0
    budget = 80
    n_checked = n_skipped = 0
    with torch.no_grad():
        for p in plist:
            flat = p.view(-1)
            for j in range(flat.numel()):
                if budget <= 0:
                    break
                budget -= 1
                x0 = float(flat[j])
                h = 1e-4 * max(1.0, abs(x0))

                def f(x):
                    flat[j] = x
                    v = float(loss())
                    flat[j] = x0
                    return v

                fp, fm, fp2, fm2 = f(x0 + h), f(x0 - h), f(x0 + h / 2), f(x0 - h / 2)
                d1 = (fp - fm) / (2 * h)
                d2 = (fp2 - fm2) / h
                est = (4 * d2 - d1) / 3
                got = float(gflat[idx + j])
                bound = rel * gnorm + 1e-9
                ctx.seen(mon)
                if not (math.isfinite(d1) and math.isfinite(d2)) or abs(d2 - d1) > max(50 * bound, 1e-3 * (abs(est) + gnorm)):
                    n_skipped += 1
                    continue
                # kink detector (|position change| in the cost term, order statistics): one-sided slopes differ by h*f'' for a smooth function
                # (halves with h) but by the jump of the slope across a kink (does not shrink with h)
                r1 = abs((fp - L0) / h - (L0 - fm) / h)
                r2 = abs((fp2 - L0) / (h / 2) - (L0 - fm2) / (h / 2))
                # (a smooth function has r2 = r1 / 2 up to O(h^3); a kink anywhere in (-h, h) - also one between h/2 and h, which contaminates d(h) only and is
                # then amplified by the extrapolation - moves the ratio away from 1/2)
                if max(r1, r2) > bound and not (0.35 * r1 <= r2 <= 0.65 * r1):
                    n_skipped += 1
                    ctx.note("fd_kink_detected")
                    continue
                # a kink between h/2 and h contaminates d(h) only, and Richardson then amplifies it: the half-step difference alone is also admissible
                if not (min(abs(got - est), abs(got - d2)) <= bound + 0.1 * abs(d2 - d1)):
                    # The loss is only piecewise smooth when positions hardly move from step to step (several kinks of the cost term within h): go down
                    # in step size.  Held if some finer central difference agrees with autograd within the bound plus its own rounding error; violated
                    # only if the finer differences agree with each other (so they are trustworthy) and all disagree with autograd; otherwise undecided.
                    fine = []
                    for sc in (1e-1, 1e-2, 1e-3):
                        hh = h * sc
                        dd = (f(x0 + hh) - f(x0 - hh)) / (2 * hh)
                        fine.append((dd, bound + 8e-15 * (abs(L0) + 1e-3) / hh))
                    if any(math.isfinite(dd) and abs(got - dd) <= tol_ for dd, tol_ in fine):
                        ctx.note("fd_refined_step_agrees")
                        n_checked += 1
                        continue
                    if not (abs(fine[1][0] - fine[2][0]) <= fine[2][1] and abs(fine[0][0] - fine[1][0]) <= 10 * fine[2][1]):
                        n_skipped += 1
                        ctx.note("fd_refined_steps_disagree")
                        continue
                    est = fine[1][0]
                    ctx.violation(mon, "gradient_mismatch", f"d loss / d parameter[{idx + j}] = {got!r} by autograd but {est!r} by finite differences "
                                  f"(|grad| = {gnorm:.3g}, bound {bound:.3g})", sig=sig, desc=desc, index=idx + j, autograd=got, finite_difference=est,
                                  d_h=d1, d_half_h=d2, one_sided_gap_h=r1, one_sided_gap_half_h=r2)
                    return
                n_checked += 1
            idx += flat.numel()
    if n_skipped:
        ctx.skipped(mon, "fd_step_sizes_disagree", n_skipped)
    if n_checked:
        ctx.ok(mon, sig=sig, n=n_checked)
    if k < 4:
        ctx.sample({"driver": "grad", **desc, "loss": float(L), "grad_norm": gnorm, "parameters_checked": n_checked, "skipped": n_skipped})


def drv_nograph(ctx, k, rng):
    derivative, hedge, hedger, n_paths, desc = P.scenario(rng, dtype=F64, model_kind=pick(rng, ["linear", "mlp", "mlp_prev", "recurrent"]),
                                                         n_paths=4, criterion=pick(rng, [EntropicRiskMeasure(), ExpectedShortfall(0.5), QuadraticCVaR(2.0)]))
    mon = "nograd.no_graph"
    a = hedger.price(derivative, hedge, n_paths=4)
    b = hedger.compute_loss(derivative, hedge, n_paths=4, enable_grad=False)
    ctx.seen(mon)
    ok = (not a.requires_grad) and a.grad_fn is None and (not b.requires_grad) and b.grad_fn is None
    ctx.check(mon, ok, "graph_on_evaluation_only", f"price() / compute_loss(enable_grad=False) carry a graph: price.requires_grad={a.requires_grad}, "
              f"loss.requires_grad={b.requires_grad}", sig=(desc["model"], type(hedger.criterion).__name__), desc=desc)
    mon = "grad.enable_grad_has_graph"
    ctx.seen(mon)
    with torch.no_grad():  # enable_grad=True must switch gradients on even inside a no_grad region
        c = hedger.compute_loss(derivative, hedge, n_paths=4, enable_grad=True)
        d = hedger.price(derivative, hedge, n_paths=4, enable_grad=True)
    ctx.check(mon, c.requires_grad and c.grad_fn is not None and d.requires_grad, "no_graph_with_enable_grad",
              "compute_loss / price with enable_grad=True carry no graph", sig=(desc["model"], type(hedger.criterion).__name__), desc=desc)
    h = hedger.fit(derivative, hedge, n_epochs=1, n_paths=4, verbose=False)
    ctx.seen("nograd.no_graph")
    ctx.check("nograd.no_graph", isinstance(h, list) and all(isinstance(v, float) for v in h), "history_not_floats", "fit history holds non-float entries",
              sig=("history",))


DRIVERS = [
    ("grad", 64, 3000, drv_grad),
    ("nograph", 24, 600, drv_nograph),
]
