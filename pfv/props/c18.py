"""C18 - Black-Scholes functions are total at maturity and at zero volatility.

Passive NaN-watch on every bs_* price / delta function (all aliases), active boundary driver with the
certain-payoff oracle at t = 0 or sigma = 0 (and tiny values), rejection of negative inputs, and
end-to-end Black-Scholes / Whalley-Wilmott hedgers whose hedge and P&L must be finite on every path.
"""
import math

import numpy as np
import torch

import pfhedge.nn.functional as F
from pfhedge.instruments import AmericanBinaryOption
from pfhedge.instruments import BrownianStock
from pfhedge.instruments import EuropeanBinaryOption
from pfhedge.instruments import EuropeanOption
from pfhedge.instruments import HestonStock
from pfhedge.instruments import LookbackOption
from pfhedge.nn import BlackScholes
from pfhedge.nn import Hedger
from pfhedge.nn import WhalleyWilmott

from .. import contracts
from .. import pipelines as P
from ..gen import F32, F64, pick, t

RULE = (
    "boundary grid: t, sigma in {0, 1e-300, 1e-30, 1e-12, 1e-6} (at least one of them zero or tiny) x log-moneyness in +-{0, 1e-12, "
    "0.1, 5, 50} x running max below / on / above the strike x call/put x strike in {1, 0.5, 3} x f32/f64, for price and delta of the "
    "four option types via functions and modules; negative t/sigma in one element of a batch; hedger runs: BlackScholes / "
    "WhalleyWilmott hedgers x 4 option types x {Brownian, Heston (incl. low-variance regime), Merton, Kou} underliers. distinct = "
    "(function, regime, side, dtype)"
)
ASSUMPTIONS = [
    "at the strike exactly (s = 0) with t = 0 or sigma = 0 any price in [0,1] (binaries) / any delta between the one-sided limits is accepted; "
    "+-inf is accepted only for the binary deltas exactly at the strike",
    "tiny t or sigma: |price - certain payoff| <= 2 (S+K+M) sigma sqrt(t) + rounding",
]
ANCHORS = ['pfhedge.nn.functional:d1',
           'pfhedge.nn.functional:d2',
           'pfhedge.nn.functional:bs_european_gamma',
           'pfhedge.nn.functional:bs_european_theta',
           'pfhedge.nn.functional:bs_european_binary_delta',
           'pfhedge.nn.functional:bs_american_binary_delta',
           'pfhedge.nn.functional:bs_lookback_price',
           'pfhedge.nn.modules.ww:WhalleyWilmott.forward',
           'pfhedge.nn.modules.hedger:Hedger.compute_hedge']
PYTEST_WORKLOAD = True  # thorough tier also runs /repo/tests with these passive monitors attached (DESIGN.md 2.7)
DECIDING = ["limit.negative_zero", "extreme.finite", "nan_watch", "limit.price", "limit.delta", "reject.negative", "hedger.finite"]
REQUIRED_BRANCHES = ["reject.python_scalar_argument", "hedger.zero_volatility_underlier", "reject.other_argument_all_zero", "t=0", "sigma=0", "both=0", "tiny", "at_strike", "hedger.bs", "hedger.ww"]

_CTX = None
PRICE_DELTA = ["bs_european_price", "bs_european_delta", "bs_european_binary_price", "bs_european_binary_delta",
               "bs_american_binary_price", "bs_american_binary_delta", "bs_lookback_price", "bs_lookback_delta"]


def _mk_watch(name):
    def make(orig):
        def fn(*a, **kw):
            out = orig(*a, **kw)
            ctx = _CTX
            if ctx is None or not isinstance(out, torch.Tensor):
                return out
            mon = "nan_watch"
            ctx.seen(mon)
            tens = [z for z in list(a) + list(kw.values()) if isinstance(z, torch.Tensor)]
            if any(not torch.isfinite(z).all() for z in tens):
                ctx.ood(mon)
                return out
            nan = torch.isnan(out.detach())
            if bool(nan.any()):
                key = "nan." + name
                if name == "bs_lookback_delta":
                    key = "lookback_delta.nan_at_zero_maturity_or_volatility"
                args = {f"arg{i}": z for i, z in enumerate(a)}
                args.update(kw)
                i = int(nan.reshape(-1).nonzero()[0, 0])
                ctx.violation(mon, key, f"{name} returned NaN (element {i} of {out.numel()}) for finite, non-negative inputs", sig=(name,),
                              **{k_: (v_.reshape(-1)[min(i, v_.numel() - 1)] if isinstance(v_, torch.Tensor) and v_.numel() else v_) for k_, v_ in args.items()})
            else:
                ctx.ok(mon, sig=(name, str(out.dtype)))
            return out

        return fn

    return make


def setup(ctx):
    global _CTX
    _CTX = ctx
    sites = {}
    for name in PRICE_DELTA:
        sites[name] = contracts.wrap_function("pfhedge.nn.functional", name, _mk_watch(name))
    ctx.extra["binding_sites"] = sites


TINY = [0.0, 1e-300, 1e-30, 1e-12, 1e-6]
SVAL = [0.0, 1e-12, 0.1, 5.0, 50.0]


def drv_boundary(ctx, k, rng):
    dtype = F64 if rng.random() < 0.7 else F32
    e = float(torch.finfo(dtype).eps)
    K = float(pick(rng, [1.0, 1.0, 0.5, 3.0]))
    n = 10
    tz = np.array([pick(rng, TINY) for _ in range(n)])
    vz = np.array([pick(rng, TINY) for _ in range(n)])
    # make sure one of them is "degenerate", the other may be regular
    reg = rng.random(n)
    tt = np.where(reg < 0.35, 10 ** rng.uniform(-2, 0.5, n), tz)
    vv = np.where((reg >= 0.35) & (reg < 0.7), rng.uniform(0.05, 1.0, n), vz)
    sgn = np.where(rng.random(n) < 0.5, 1.0, -1.0)
    s = sgn * np.array([pick(rng, SVAL) for _ in range(n)])
    if dtype == F32:
        tt = np.where((tt > 0) & (tt < 1e-30), 1e-30, tt)
        vv = np.where((vv > 0) & (vv < 1e-30), 1e-30, vv)
    mk = rng.random(n)
    m = np.where(mk < 0.3, s, np.where(mk < 0.5, np.maximum(s, 0.0), np.where(mk < 0.8, s + rng.uniform(0, 0.3, n), np.maximum(s, -0.05))))
    m = np.maximum(m, s)
    S_, T_, V_, M_ = t(s, dtype), t(tt, dtype), t(vv, dtype), t(m, dtype)
    w = V_.to(F64) * T_.to(F64).sqrt()
    for i in range(n):
        if float(T_[i]) == 0 and float(V_[i]) == 0:
            ctx.branch("both=0")
        elif float(T_[i]) == 0:
            ctx.branch("t=0")
        elif float(V_[i]) == 0:
            ctx.branch("sigma=0")
        elif float(w[i]) < 1e-5:
            ctx.branch("tiny")
        if float(S_[i]) == 0:
            ctx.branch("at_strike")
    Sp = (K * S_.to(F64).exp())
    Mx = (K * M_.to(F64).exp())
    finite_scale = torch.isfinite(Sp) & (Sp < 1e30)
    via = pick(rng, ["fn", "module"])
    call = bool(rng.random() < 0.5)
    from pfhedge.nn import BSAmericanBinaryOption, BSEuropeanBinaryOption, BSEuropeanOption, BSLookbackOption

    def both(fn_form, mod_form):
        return fn_form() if via == "fn" else mod_form()

    res = {}
    res["eu_p"] = both(lambda: F.bs_european_price(S_, T_, V_, strike=K, call=call), lambda: BSEuropeanOption(call=call, strike=K).price(S_, T_, V_))
    res["eu_d"] = both(lambda: F.bs_european_delta(S_, T_, V_, call=call), lambda: BSEuropeanOption(call=call, strike=K).delta(S_, T_, V_))
    res["eb_p"] = both(lambda: F.bs_european_binary_price(S_, T_, V_, call=call), lambda: BSEuropeanBinaryOption(call=call, strike=K).price(S_, T_, V_))
    res["eb_d"] = both(lambda: F.bs_european_binary_delta(S_, T_, V_, call=call, strike=K), lambda: BSEuropeanBinaryOption(call=call, strike=K).delta(S_, T_, V_))
    res["ab_p"] = both(lambda: F.bs_american_binary_price(S_, M_, T_, V_), lambda: BSAmericanBinaryOption(strike=K).price(S_, M_, T_, V_))
    res["ab_d"] = both(lambda: F.bs_american_binary_delta(S_, M_, T_, V_, strike=K), lambda: BSAmericanBinaryOption(strike=K).delta(S_, M_, T_, V_))
    res["lb_p"] = both(lambda: F.bs_lookback_price(S_, M_, T_, V_, strike=K), lambda: BSLookbackOption(strike=K).price(S_, M_, T_, V_))
    res["lb_d"] = both(lambda: F.bs_lookback_delta(S_, M_, T_, V_, strike=K), lambda: BSLookbackOption(strike=K).delta(S_, M_, T_, V_))
    cc = 64 * e
    for i in range(n):
        if not bool(finite_scale[i]):
            continue
        sv, wv, Sv, Mv, mv = float(S_[i]), float(w[i]), float(Sp[i]), float(Mx[i]), float(M_[i])
        degenerate = wv == 0
        if not degenerate and wv > 1e-5:
            continue  # regular point: C07/C08 territory
        regime = "zero" if degenerate else "tiny"
        side = "at" if sv == 0 else ("itm" if sv > 0 else "otm")
        tv = 2 * (Sv + K + Mv) * wv
        # far enough from the strike that the tiny-w distribution cannot reach it
        away = degenerate and sv != 0 or (not degenerate and abs(sv) > 40 * wv)

        def chk(mon, name, got, lo, hi, what):
            got = float(got)
            ctx.seen(mon)
            sig = (name, regime, side, str(dtype), via)
            if math.isnan(got):
                return  # reported by the NaN watch (keeps known / unknown classification in one place)
            if not (lo <= got <= hi):
                ctx.violation(mon, mon + "." + name, f"{name} = {got!r} at t={float(T_[i])!r}, sigma={float(V_[i])!r}, s={sv!r}, m={mv!r}, K={K}, "
                              f"call={call}: expected {what} in [{lo!r}, {hi!r}]", sig=sig, log_moneyness=sv, time_to_maturity=float(T_[i]),
                              volatility=float(V_[i]), max_log_moneyness=mv, strike=K, call=call, observed=got, lo=lo, hi=hi, via=via)
            else:
                ctx.ok(mon, sig=sig)

        sl = cc * (Sv + K + Mv)
        intr = max(Sv - K, 0.0) if call else max(K - Sv, 0.0)
        chk("limit.price", "european", res["eu_p"][i], intr - sl - tv, intr + sl + tv, "intrinsic value")
        if away:
            lim = (1.0 if sv > 0 else 0.0) if call else (0.0 if sv > 0 else 1.0)
            chk("limit.price", "european_binary", res["eb_p"][i], lim - cc, lim + cc, "certain binary payoff")
            dl = (1.0 if sv > 0 else 0.0) - (0.0 if call else 1.0)
            chk("limit.delta", "european", res["eu_d"][i], dl - cc, dl + cc, "limiting delta")
            chk("limit.delta", "european_binary", res["eb_d"][i], -cc / max(Sv, 1e-300), cc / max(Sv, 1e-300), "zero binary delta away from the strike")
        else:
            chk("limit.price", "european_binary", res["eb_p"][i], -cc, 1 + cc, "a probability")
            lo_d, hi_d = (0.0, 1.0) if call else (-1.0, 0.0)
            chk("limit.delta", "european", res["eu_d"][i], lo_d - cc, hi_d + cc, "a delta between its one-sided limits")
            ctx.seen("limit.delta")
            gd = float(res["eb_d"][i])
            if not math.isnan(gd):
                ctx.ok("limit.delta", sig=("european_binary", regime, side, str(dtype), via))
        # American binary (call): 1 once reached, else certain 0 when nothing can move
        if mv >= 0:
            chk("limit.price", "american_binary", res["ab_p"][i], 1.0, 1.0, "1 (barrier reached)")
            chk("limit.delta", "american_binary", res["ab_d"][i], 0.0, 0.0, "0 (barrier reached)")
        elif away:
            chk("limit.price", "american_binary", res["ab_p"][i], -cc, cc, "0 (barrier out of reach)")
            chk("limit.delta", "american_binary", res["ab_d"][i], -cc / max(Sv, 1e-300), cc / max(Sv, 1e-300), "0 (barrier out of reach)")
        else:
            chk("limit.price", "american_binary", res["ab_p"][i], -cc, 1 + cc, "a probability")
        locked = max(max(Mv, Sv) - K, 0.0)
        chk("limit.price", "lookback", res["lb_p"][i], locked - sl - tv, locked + sl + tv, "locked-in payoff max(M-K,0)")
        gd = float(res["lb_d"][i])
        ctx.seen("limit.delta")
        if not math.isnan(gd):
            if not (-cc <= gd <= 2.0 + cc) and not degenerate:
                # autograd of the closed form: terms of size npdf/(sigma sqrt t) ~ 1e15 cancel, leaving rounding garbage
                ctx.violation("limit.delta", "lookback_delta.cancellation_at_tiny_maturity", f"lookback delta = {gd!r} at t={float(T_[i])!r}, sigma={float(V_[i])!r}, s={sv!r}, "
                              f"m={mv!r}, K={K} (sigma sqrt t = {wv:.3g}): outside [0, 2]", sig=("lookback", regime, side, str(dtype), via), log_moneyness=sv,
                              time_to_maturity=float(T_[i]), volatility=float(V_[i]), max_log_moneyness=mv, strike=K, observed=gd)
            else:
                chk("limit.delta", "lookback", gd, -cc, 2.0 + cc, "a lookback delta in [0, 2]")
    if k < 4:
        ctx.sample({"driver": "boundary", "dtype": str(dtype), "via": via, "call": call, "K": K, "s": S_, "t": T_, "sigma": V_, "m": M_,
                    "european_price": res["eu_p"], "lookback_price": res["lb_p"], "american_binary_delta": res["ab_d"]})


def drv_extreme(ctx, k, rng):
    """Very large |log-moneyness| on the out-of-the-money side with ordinary maturity and volatility (the spot is still representable - it underflows
    towards zero): prices and deltas take their limits, and the Whalley-Wilmott strategy (delta and band from gamma) stays finite."""
    from pfhedge.instruments import BrownianStock, EuropeanOption

    dtype = pick(rng, [F32, F64])
    big = [60.0, 88.0, 90.0, 104.0, 120.0, 300.0] if dtype == F32 else [300.0, 709.0, 720.0, 746.0, 800.0, 2000.0]
    s = -t(np.array([pick(rng, big) for _ in range(6)]), dtype)
    tt = t(10 ** rng.uniform(-2, 0.3, 6), dtype)
    v = t(rng.uniform(0.05, 0.8, 6), dtype)
    prev = t(rng.uniform(-0.5, 1.0, 6), dtype)
    d = EuropeanOption(BrownianStock(cost=float(pick(rng, [1e-4, 1e-3, 1e-2])), dtype=dtype), strike=float(pick(rng, [1.0, 2.0])))
    ww = WhalleyWilmott(d, a=float(pick(rng, [0.5, 1.0, 5.0])))
    mon = "extreme.finite"
    with torch.no_grad():
        got = {
            "european call price": F.bs_european_price(s, tt, v), "european call delta": F.bs_european_delta(s, tt, v),
            "binary call price": F.bs_european_binary_price(s, tt, v), "binary call delta": F.bs_european_binary_delta(s, tt, v),
            "european gamma (Whalley-Wilmott band)": F.bs_european_gamma(s, tt, v),
            "whalley_wilmott width": ww.width(torch.stack([s, tt, v], -1)).reshape(-1),
            "whalley_wilmott hedge": ww(torch.stack([s, tt, v, prev], -1)).reshape(-1),
        }
    for name, val in got.items():
        ctx.seen(mon)
        fin = bool(torch.isfinite(val).all())
        zero = name.endswith("hedge") or bool((val.abs() <= 1e-30).all())  # every one of these is 0 in the limit (the hedge is the clamped previous hedge)
        ctx.check(mon, fin and zero, "extreme." + name.split(" (")[0].replace(" ", "_"), f"{name} at log-moneyness {s.tolist()} (t, sigma ordinary) = {val.tolist()}: "
                  "expected finite and zero", sig=(name, str(dtype)), log_moneyness=s, time_to_maturity=tt, volatility=v, observed=val)


def drv_negzero(ctx, k, rng):
    """-0.0 is zero: a time to maturity or volatility of negative zero (what `-(t - T)` gives at maturity) is the boundary case, with the same prices and deltas
    as +0.0.  Case 0 is the fixed witness of the known finding."""
    dtype = F64 if (k == 0 or rng.random() < 0.5) else F32
    if k == 0:
        s = torch.tensor([0.3, -0.3], dtype=dtype)
        reg_t, reg_v = 0.3, 0.2
    else:
        s = t(rng.uniform(-0.5, 0.5, 4), dtype)
        reg_t, reg_v = float(rng.uniform(0.05, 1.0)), float(rng.uniform(0.05, 0.6))
    m = torch.maximum(s, t(rng.uniform(-0.2, 0.3, s.numel()), dtype)) if k else torch.maximum(s, torch.zeros_like(s))
    mon = "limit.negative_zero"
    for which in ("t", "v", "both"):
        def args(z):
            tt = torch.full_like(s, z if which in ("t", "both") else reg_t)
            vv = torch.full_like(s, z if which in ("v", "both") else reg_v)
            return tt, vv
        fns = {
            "bs_european_price": lambda tt, vv: F.bs_european_price(s, tt, vv), "bs_european_delta": lambda tt, vv: F.bs_european_delta(s, tt, vv),
            "bs_european_binary_price": lambda tt, vv: F.bs_european_binary_price(s, tt, vv),
            "bs_american_binary_price": lambda tt, vv: F.bs_american_binary_price(s, m, tt, vv),
            "bs_american_binary_delta": lambda tt, vv: F.bs_american_binary_delta(s, m, tt, vv, 1.0),
            "bs_lookback_price": lambda tt, vv: F.bs_lookback_price(s, m, tt, vv, 1.0),
        }
        for name, fn in fns.items():
            ctx.seen(mon)
            with torch.no_grad():
                pos, neg = fn(*args(0.0)), fn(*args(-0.0))
            same = bool(((pos == neg) | (torch.isnan(pos) & torch.isnan(neg))).all())
            # known for every function whose formula divides by sigma * sqrt(t): the negative zero survives sqrt and the product, and flips the sign of +-inf
            flips = which != "both"
            ctx.check(mon, same, "negative_zero.sign_flip" if flips else "negative_zero", f"{name} with {'time_to_maturity' if which == 't' else ('volatility' if which == 'v' else 'both')} "
                      f"= -0.0 gives {neg.tolist()} but {pos.tolist()} with +0.0 (log_moneyness {s.tolist()})", sig=(name, which, str(dtype)), log_moneyness=s, with_negative_zero=neg,
                      with_positive_zero=pos)


def drv_reject(ctx, k, rng):
    """Negative time to maturity or volatility in any element must raise ValueError in every function."""
    dtype = pick(rng, [F32, F64])
    n = int(pick(rng, [1, 4]))
    s = t(rng.uniform(-0.3, 0.3, n), dtype)
    tt = t(rng.uniform(0.01, 1, n), dtype)
    v = t(rng.uniform(0.05, 0.5, n), dtype)
    m = torch.maximum(s, t(rng.uniform(-0.1, 0.3, n), dtype))
    which = pick(rng, ["t", "v"])
    bad = float(pick(rng, [-1e-300, -1e-12, -0.1, -5.0])) if dtype == F64 else float(pick(rng, [-1e-30, -1e-6, -0.1, -5.0]))
    j = int(rng.integers(n))
    if rng.random() < 0.4:
        # the *other* argument sits on the boundary everywhere (expired options / zero volatility): validation must not be skipped there
        if which == "t":
            v = torch.zeros_like(v)
        else:
            tt = torch.zeros_like(tt)
        ctx.branch("reject.other_argument_all_zero")
    if which == "t":
        tt[j] = bad
    else:
        v[j] = bad
    if rng.random() < 0.3:
        # the offending argument as a python number (as in the documentation's examples) instead of a tensor element
        # (python numbers are converted in the default dtype, float32: only values that stay negative there are admissible probes)
        badf = float(pick(rng, [-1e-30, -1e-6, -0.1, -5.0]))
        if which == "t":
            tt = badf if rng.random() < 0.7 else -1
        else:
            v = badf if rng.random() < 0.7 else -1
        bad = badf
        ctx.branch("reject.python_scalar_argument")
    calls = {
        "d1": lambda: F.d1(s, tt, v), "d2": lambda: F.d2(s, tt, v),
        "bs_european_price": lambda: F.bs_european_price(s, tt, v), "bs_european_delta": lambda: F.bs_european_delta(s, tt, v),
        "bs_european_gamma": lambda: F.bs_european_gamma(s, tt, v), "bs_european_vega": lambda: F.bs_european_vega(s, tt, v, 1.0),
        "bs_european_theta": lambda: F.bs_european_theta(s, tt, v, 1.0),
        "bs_european_binary_price": lambda: F.bs_european_binary_price(s, tt, v),
        "bs_european_binary_delta": lambda: F.bs_european_binary_delta(s, tt, v),
        "bs_european_binary_gamma": lambda: F.bs_european_binary_gamma(s, tt, v),
        "bs_american_binary_price": lambda: F.bs_american_binary_price(s, m, tt, v),
        "bs_american_binary_delta": lambda: F.bs_american_binary_delta(s, m, tt, v, 1.0),
        "bs_american_binary_gamma": lambda: F.bs_american_binary_gamma(s, m, tt, v, 1.0),
        "bs_lookback_price": lambda: F.bs_lookback_price(s, m, tt, v, 1.0),
        "bs_lookback_delta": lambda: F.bs_lookback_delta(s, m, tt, v, 1.0),
    }
    mon = "reject.negative"
    for name, fn in calls.items():
        ctx.seen(mon)
        try:
            out = fn()
            ctx.violation(mon, "no_error." + name, f"{name} accepted negative {'time_to_maturity' if which == 't' else 'volatility'} {bad!r} "
                          f"(element {j} of {n}) and returned {out.flatten()[:4].tolist()}", sig=(name, which, str(dtype)), which=which, value=bad)
        except ValueError:
            ctx.ok(mon, sig=(name, which, str(dtype), n == 1))


def drv_hedger(ctx, k, rng):
    dtype = pick(rng, [None, F64])
    sk = pick(rng, ["brownian", "brownian", "heston", "heston_low", "merton", "kou"])
    cost = float(pick(rng, [0.0, 1e-4, 1e-3]))
    if sk == "brownian_zero_vol":
        # a deterministic underlier: the price never leaves its initial value (exactly at the money for strike 1)
        stock = BrownianStock(sigma=0.0, cost=cost, dtype=dtype)
        stock._pfv_kind = sk
        ctx.branch("hedger.zero_volatility_underlier")
    elif sk == "heston_low":
        stock = HestonStock(kappa=float(rng.uniform(0.2, 1)), theta=float(rng.uniform(0.002, 0.02)), sigma=float(rng.uniform(0.5, 1.5)),
                            rho=float(rng.uniform(-0.9, 0)), cost=cost, dtype=dtype)
        stock._pfv_kind = sk
    else:
        stock = P.make_stock(rng, sk, dtype=dtype, cost=cost, dt=1 / 250)
    kind = pick(rng, P.OPTIONS)
    K = float(pick(rng, [1.0, 1.0, 0.95, 1.05]))
    call = True if kind in ("american_binary", "lookback") else bool(rng.random() < 0.5)
    cls = {"european": EuropeanOption, "lookback": LookbackOption, "american_binary": AmericanBinaryOption, "european_binary": EuropeanBinaryOption}[kind]
    d = cls(stock, call=call, strike=K, maturity=int(pick(rng, [1, 2, 5, 20])) / 250)
    which = pick(rng, ["bs", "ww"])
    ctx.branch("hedger." + which)
    model = BlackScholes(d) if which == "bs" else WhalleyWilmott(d, a=float(pick(rng, [0.5, 1.0, 5.0])))
    hedger = Hedger(model, model.inputs())
    if dtype is not None:
        hedger.to(dtype)
    n = int(pick(rng, [200, 200, 2000 if ctx.thorough else 300]))
    d.simulate(n_paths=n)
    with torch.no_grad():
        hedge = hedger.compute_hedge(d)
        pl = hedger.compute_pl(d)
    mon = "hedger.finite"
    ctx.seen(mon)
    zero_vol = bool((stock.volatility == 0).any())
    if zero_vol:
        ctx.branch("hedger.zero_volatility_mid_path")
    ok = bool(torch.isfinite(hedge).all() and torch.isfinite(pl).all())
    bad = (~torch.isfinite(hedge)).nonzero()
    key = "hedger.finite"
    if not ok and kind == "lookback" and zero_vol and which == "bs":
        key = "lookback_delta.nan_at_zero_maturity_or_volatility"
    elif not ok and which == "ww" and zero_vol and kind != "european":
        # the band half-width needs gamma; only bs_european_gamma guards 0/0 at zero volatility
        key = "ww.gamma_nan_at_zero_volatility"
    ctx.check(mon, ok, key, f"{which} hedger of a {kind} option on {sk}: non-finite hedge/P&L (first bad hedge index {bad[0].tolist() if bad.numel() else None})",
              sig=(which, kind, sk, str(dtype), call), hedge_bad=bad[:3], n_paths=n, zero_vol=zero_vol)
    if k < 3:
        ctx.sample({"driver": "hedger", "model": which, "derivative": kind, "stock": sk, "hedge_row0": hedge[0, 0, :5], "pl_head": pl[:3]})


def drv_zero_vol(ctx, k, rng):
    """Deterministic underlier (sigma = 0): every option type x hedger x cost x strike (at / in / out of the money), enumerated."""
    kinds = ["european", "european_binary", "american_binary", "lookback"]
    kind = kinds[k % 4]
    cls = {"european": EuropeanOption, "lookback": LookbackOption, "american_binary": AmericanBinaryOption, "european_binary": EuropeanBinaryOption}[kind]
    dtype = [None, F64][(k // 4) % 2]
    for which in ("bs", "ww"):
        for cost in (0.0, 1e-3):
            for K in (1.0, 0.95, 1.05):
                if kind == "european_binary" and K == 1.0:
                    continue  # exactly at the strike with zero volatility the binary delta is a Dirac mass (+inf admitted by the property)
                for call in ((True,) if kind in ("american_binary", "lookback") else (True, False)):
                    stock = BrownianStock(sigma=0.0, cost=cost, dtype=dtype)
                    d = cls(stock, call=call, strike=K, maturity=3 / 250)
                    model = BlackScholes(d) if which == "bs" else WhalleyWilmott(d)
                    hedger = Hedger(model, model.inputs())
                    if dtype is not None:
                        hedger.to(dtype)
                    d.simulate(n_paths=2)
                    with torch.no_grad():
                        hedge = hedger.compute_hedge(d)
                        pl = hedger.compute_pl(d)
                    mon = "hedger.finite"
                    ctx.seen(mon)
                    ok = bool(torch.isfinite(hedge).all() and torch.isfinite(pl).all())
                    key = "hedger.finite"
                    if not ok and kind == "lookback":
                        key = "lookback_delta.nan_at_zero_maturity_or_volatility" if which == "bs" else "ww.gamma_nan_at_zero_volatility"
                    elif not ok and which == "ww" and kind != "european":
                        key = "ww.gamma_nan_at_zero_volatility"
                    elif not ok and which == "ww" and kind == "european" and cost == 0.0 and K == 1.0:
                        key = "ww.zero_cost_times_infinite_gamma"  # width = (0 * inf)^(1/3) exactly at the money with zero volatility
                    ctx.check(mon, ok, key, f"{which} hedger of a {kind} option (call={call}, strike={K}) on a zero-volatility stock (cost={cost}): non-finite hedge/P&L "
                              f"{hedge[0, 0].tolist()}", sig=(which, kind, "zero_vol", K, cost > 0, str(dtype), call))
    ctx.branch("hedger.zero_volatility_underlier")


def drv_witness(ctx, k, rng):
    """Fixed witness of the known finding lookback_delta.nan_at_zero_maturity_or_volatility."""
    if k == 0:
        s = torch.tensor([-0.1, 0.0, 0.1], dtype=F64)
        F.bs_lookback_delta(s, s.clamp(min=0.05), torch.zeros(3, dtype=F64), torch.full((3,), 0.2, dtype=F64), strike=1.0)
    elif k == 2:
        s = torch.tensor([0.1], dtype=F64)
        gd = float(F.bs_lookback_delta(s, s.clone(), torch.tensor([1e-30], dtype=F64), torch.tensor([0.15310090641812815], dtype=F64), strike=0.5))
        ctx.seen("limit.delta")
        ctx.check("limit.delta", -1e-12 <= gd <= 2.0 + 1e-12, "lookback_delta.cancellation_at_tiny_maturity",
                  f"lookback delta = {gd!r} at t=1e-30, sigma=0.153, spot at its running maximum above the strike: outside [0, 2]", sig=("witness",), observed=gd)
    else:
        # a Heston path that sits at zero variance for one step (the QE scheme returns exactly 0 with positive probability)
        stock = HestonStock(cost=1e-3, dtype=F64)
        d = EuropeanBinaryOption(stock, maturity=4 / 250)
        d.simulate(n_paths=2)
        var = stock.variance.clone()
        var[0, 2] = 0.0
        stock.register_buffer("variance", var)
        model = WhalleyWilmott(d)
        hedger = Hedger(model, model.inputs()).to(F64)
        with torch.no_grad():
            hedge = hedger.compute_hedge(d)
        ctx.seen("hedger.finite")
        ctx.check("hedger.finite", bool(torch.isfinite(hedge).all()), "ww.gamma_nan_at_zero_volatility",
                  "Whalley-Wilmott hedger of a European binary option: NaN hedge on a path whose variance is exactly 0 at one step",
                  sig=("witness",), hedge=hedge[0, 0])


DRIVERS = [
    ("extreme", 16, 400, drv_extreme),
    ("negzero", 6, 100, drv_negzero),
    ("witness", 3, 3, drv_witness),
    ("boundary", 300, 20000, drv_boundary),
    ("reject", 40, 1500, drv_reject),
    ("hedger", 80, 2500, drv_hedger),
    ("zero_vol", 8, 8, drv_zero_vol),
]
