"""C05 - risk-measure values equal their mathematical definitions.

Passive contracts on the functional forms (all aliases, incl. the names imported into loss.py) and
on the forward of the loss modules, with oracles from pfv.oracles.risk evaluated on the exact values
of the sample along the reduction axis (every column, subsampled when there are many).
"""
import math
from fractions import Fraction

import mpmath
import numpy as np
import torch

import pfhedge.nn.functional as F
from pfhedge.nn import EntropicLoss
from pfhedge.nn import EntropicRiskMeasure
from pfhedge.nn import ExpectedShortfall
from pfhedge.nn import IsoelasticLoss
from pfhedge.nn import QuadraticCVaR
from pfhedge.nn.modules.loss import OCE

from .. import contracts
from ..gen import F32, F64, pick, sample, t
from ..oracles import risk as R

RULE = (
    "samples: N in {1,2,3,5,10,100,1000} x trailing shape {(),(M),(M,K)} x style {gauss, lognormal, ties, heavy tails, const, "
    "two-point, sorted, reversed} x magnitude 1e-6..1e6 x dtype; parameters a in [1e-3,100], p incl. k/N and k/N +- 1e-12, "
    "lam in [1,1000]; explicit dim (incl. None and negative) for the functional forms; scalar/tensor targets for the "
    "modules. Every reduced column is judged against the definition. distinct = distinct (function, N-class, shape, style, "
    "dtype, parameter-class) signatures; trivial = constant samples"
)
ASSUMPTIONS = [
    "python-float parameters (a, p, lam) are taken at their exact double value",
    "quadratic CVaR: admissible excess over the exact minimum is 3*lam*precision^2 + rounding, precision as chosen by the library "
    "(1e-6 * 10**int(log10(range)))",
    "expected shortfall / VaR at p*N within 1e-9 of an integer: either adjacent order-statistic count accepted (as the property states)",
    "columns subsampled to <= 6 per call (first, last, seeded others)",
]
ANCHORS = ['pfhedge.nn.functional:exp_utility',
           'pfhedge.nn.functional:isoelastic_utility',
           'pfhedge.nn.functional:entropic_risk_measure',
           'pfhedge.nn.functional:topp',
           'pfhedge.nn.functional:expected_shortfall',
           'pfhedge.nn.functional:value_at_risk',
           'pfhedge.nn.functional:quadratic_cvar',
           'pfhedge.nn.modules.loss:OCE.forward']
PYTEST_WORKLOAD = True  # thorough tier also runs /repo/tests with these passive monitors attached (DESIGN.md 2.7)
DECIDING = ["var.monotone_in_p", "module.is_functional_at_current_parameter", "entropic_risk_measure", "expected_shortfall", "value_at_risk", "quadratic_cvar", "exp_utility", "isoelastic_utility",
            "topp", "module.EntropicLoss", "module.IsoelasticLoss", "module.OCE", "module.target_first"]
REQUIRED_BRANCHES = ["var.median_of_odd_sample", "es.long_sample", "module.parameter_reassigned", "exp_utility.large_exponent.float64", "exp_utility.large_exponent.float32", "es.pN_integral", "es.pN_fractional", "var.min", "var.max", "var.kth", "var.between", "dim.none",
                     "entropic.large_ax", "qcvar.regular"]

_CTX = None
MAXC = 6


def columns(x, dim):
    """Yield (index, list_of_floats) for reduced columns along dim (dim None = flatten)."""
    if dim is None:
        yield (), x.reshape(-1).to(F64).tolist()
        return
    xm = x.movedim(dim, 0)
    n = xm.shape[0]
    flat = xm.reshape(n, -1)
    m = flat.shape[1]
    idx = list(range(m)) if m <= MAXC else sorted({0, m - 1} | set(np.random.default_rng(m * 13 + n).integers(0, m, MAXC - 2).tolist()))
    cols = flat[:, idx].to(F64).t().tolist()
    for j, c in zip(idx, cols):
        yield (j,), c


def out_at(out, dim, x, j):
    if dim is None:
        return float(out)
    return float(out.reshape(-1)[j[0]]) if out.dim() else float(out)


def exp_shape(x, dim):
    if dim is None:
        return ()
    s = list(x.shape)
    del s[dim]
    return tuple(s)


def ncls(n):
    return str(n) if n <= 3 else ("small" if n <= 10 else "big")


def _sig(name, x, dim, extra=()):
    n = x.numel() if dim is None else x.shape[dim]
    return (name, ncls(n), x.dim(), str(x.dtype), "dimNone" if dim is None else ("dim0" if dim in (0, -x.dim()) else "dimk")) + tuple(extra)


def judge_entropic(ctx, mon, x, a, out, sig):
    if not torch.isfinite(x).all() or x.dim() < 1:
        ctx.ood(mon)
        return
    if out.shape != x.shape[1:]:
        ctx.violation(mon, "shape", f"shape {tuple(out.shape)} expected {tuple(x.shape[1:])}", sig=sig)
        return
    e = float(torch.finfo(x.dtype).eps)
    for j, col in columns(x, 0):
        want = R.entropic(col, a)
        got = out_at(out, 0, x, j)
        mx = max(abs(c) for c in col)
        if mx * float(a) > 50:
            ctx.branch("entropic.large_ax")
        bound = 32 * e * (mx + (math.log(len(col)) + 1) / float(a)) + 1e-300
        if not (math.isfinite(got) and abs(mpmath.mpf(got) - want) <= bound):
            ctx.violation(mon, "value", f"entropic risk {got!r} != (1/a) log mean exp(-a x) = {float(want)!r} (a={a}, N={len(col)})",
                          sig=sig, sample=col[:50], a=a, observed=got, oracle=float(want), bound=bound, n=len(col))
            return
    ctx.ok(mon, sig=sig)


def judge_es(ctx, mon, x, p, dim, out, sig):
    if not torch.isfinite(x).all() or not (0 < p <= 1) or x.numel() == 0:
        ctx.ood(mon)
        return
    if out.shape != exp_shape(x, dim):
        ctx.violation(mon, "shape", f"shape {tuple(out.shape)} expected {exp_shape(x, dim)} (dim={dim})", sig=sig)
        return
    e = float(torch.finfo(x.dtype).eps)
    for j, col in columns(x, dim):
        n = len(col)
        ks = R.es_counts(p, n)
        pn = Fraction(float(p)) * n
        ctx.branch("es.pN_integral" if pn == int(pn) or len(ks) > 1 else "es.pN_fractional")
        got = out_at(out, dim, x, j)
        srt = sorted(col)
        ok = False
        for k in ks:
            want = R.expected_shortfall(col, k)
            mx = max(abs(c) for c in srt[:k])  # the mean of the k selected outcomes is accurate relative to *their* size, whatever else the sample holds
            if math.isfinite(got) and abs(Fraction(got) - want) <= (k + 4) * e * mx + 1e-300:
                ok = True
        if not ok:
            want = R.expected_shortfall(col, ks[0])
            ctx.violation(mon, "es.dim_none_multidim" if (dim is None and x.dim() > 1) else "value", f"expected shortfall {got!r} != -mean of the {ks} smallest = {float(want)!r} (p={p}, N={n})",
                          sig=sig, sample=col[:50], p=p, observed=got, oracle=float(want), k=ks, n=n, dim=dim)
            return
    ctx.ok(mon, sig=sig)


def judge_var(ctx, mon, x, p, dim, out, sig):
    if not torch.isfinite(x).all() or not (0 < p <= 1) or x.numel() == 0:
        ctx.ood(mon)
        return
    if out.shape != exp_shape(x, dim):
        ctx.violation(mon, "shape", f"shape {tuple(out.shape)} expected {exp_shape(x, dim)} (dim={dim})", sig=sig)
        return
    e = float(torch.finfo(x.dtype).eps)
    for j, col in columns(x, dim):
        n = len(col)
        lo, hi, kind = R.var_bounds(col, p)
        ctx.branch("var." + ("kth" if kind in ("kth", "boundary") else kind))
        got = out_at(out, dim, x, j)
        s = sorted(col)
        if kind in ("min", "max"):
            slack = 0.0
        else:
            # interpolation weight is computed in the tensor dtype: error ~ n*eps times the neighbouring gaps
            i_lo, i_hi = s.index(lo), n - 1 - s[::-1].index(hi)
            gap = (s[min(i_hi + 1, n - 1)] - s[max(i_lo - 1, 0)])
            pn = Fraction(float(p)) * n
            slack = (4 * n * e + 2 * float(abs(pn - round(pn))) * (kind != "between")) * gap + 4 * e * max(abs(lo), abs(hi))
        if not (math.isfinite(got) and lo - slack <= got <= hi + slack):
            ctx.violation(mon, "value", f"value at risk {got!r} not in [{lo!r}, {hi!r}] ({kind}; p={p}, N={n})",
                          sig=sig, sample=col[:50], p=p, observed=got, lo=lo, hi=hi, kind=kind, n=n, dim=dim)
            return
    ctx.ok(mon, sig=sig)


def lib_precision(col):
    mean = sum(Fraction(c) for c in col) / len(col)
    rng_ = float(max(col) - min(col)) + 2e-8
    try:
        return 1e-6 * 10 ** int(math.log10(rng_))
    except ValueError:
        return 1e-6


def qcvar_mixed_direction(x, dim):
    """True if the search bracket the library builds (mean-centred data, ends padded by an absolute 1e-8, all in the tensor's dtype) is degenerate for
    some column but not for all: fn(lower) > fn(upper) fails there (the padding is absorbed by rounding when a column is constant at the resolution of
    its dtype), so bisect's all()-based direction test reads the whole batch as increasing and *every* column is searched the wrong way."""
    with torch.no_grad():
        inp = x - x.mean(dim=dim, keepdim=True)
        lower = torch.amin(-inp, dim=dim, keepdim=True) - 1e-8
        upper = torch.amax(-inp, dim=dim, keepdim=True) + 1e-8

        def g(w):
            return torch.relu(-w - inp).mean(dim=dim, keepdim=True)

        dec = g(lower) > g(upper)
        return bool((~dec).any()) and bool(dec.any()) and bool((lower < upper).all())


def judge_qcvar(ctx, mon, x, lam, dim, out, sig):
    if not torch.isfinite(x).all() or not lam >= 1 or x.numel() == 0:
        ctx.ood(mon)
        return
    if out.shape != exp_shape(x, dim):
        ctx.violation(mon, "shape", f"shape {tuple(out.shape)} expected {exp_shape(x, dim)} (dim={dim})", sig=sig)
        return
    e = float(torch.finfo(x.dtype).eps)
    # the library uses ONE precision for all columns, derived from the widest column range
    if dim is None:
        allcols = [x.reshape(-1).to(F64).tolist()]
    else:
        xm = x.movedim(dim, 0)
        allcols = None
        widest = float((xm.amax(0) - xm.amin(0)).max()) + 2e-8
    for j, col in columns(x, dim):
        n = len(col)
        if n > 400:
            ctx.skipped(mon, "n>400_exact_solver_too_slow")
            continue
        want, wstar = R.quadratic_cvar(col, lam)
        got = out_at(out, dim, x, j)
        if dim is None:
            prec = lib_precision(col)
        else:
            try:
                prec = 1e-6 * 10 ** int(math.log10(widest))
            except ValueError:
                prec = 1e-6
        mx = max(abs(c) for c in col)
        sq = float(want - wstar) if want > wstar else 0.0
        bound = 3 * float(lam) * prec**2 + 64 * e * (mx + abs(float(wstar)) + 1 / (4 * float(lam))) + (n + 8) * e * sq
        # the bisection works on mean-centred data in the tensor dtype: centring error up to eps*max|x|, and the root is located
        # only to `prec` or to the resolution of the dtype around |w|
        res = 4 * e * (mx + abs(float(wstar)))
        bound += 3 * float(lam) * res**2 + 2 * res
        regime = R.qcvar_defect_regime(col, lam)
        if math.isfinite(got) and abs(Fraction(got) - want) <= bound:
            ctx.branch("qcvar.defect_regime_ok" if regime else "qcvar.regular")
            continue
        key = "qcvar.bracket_lower_bound_above_root" if (regime and got > float(want)) else "value"
        if dim is not None and qcvar_mixed_direction(x, dim):
            key = "qcvar.constant_column_flips_search_direction"
        ctx.violation(mon, key, f"quadratic CVaR {got!r} != min_w [w + lam mean(max(-w-x,0)^2)] = {float(want)!r} at w*={float(wstar)!r} "
                      f"(lam={lam}, N={n}, mean(max-x)<1/(2lam): {regime})", sig=sig, sample=col[:50], lam=lam, observed=got,
                      oracle=float(want), argmin=float(wstar), bound=bound, n=n, dim=dim)
        return
    ctx.ok(mon, sig=sig)


def _mk(name):
    def make(orig):
        if name == "entropic_risk_measure":
            def fn(input, a=1.0):
                out = orig(input, a=a)
                if _CTX is not None:
                    _CTX.seen(name)
                    _guard(judge_entropic, _CTX, name, input.detach(), a, out.detach(), _sig(name, input, 0, (a >= 10,)))
                return out
        elif name == "expected_shortfall":
            def fn(input, p, dim=None):
                try:
                    out = orig(input, p=p, dim=dim)
                except RuntimeError as ex:
                    if _CTX is not None and dim is None and input.dim() > 1 and "out of range" in str(ex):
                        _CTX.violation(name, "es.dim_none_multidim", f"expected_shortfall(dim=None) on a {input.dim()}-d input raised: {ex}",
                                       shape=list(input.shape), p=p)
                        return input.new_full((), float("nan"))
                    raise
                if _CTX is not None:
                    _CTX.seen(name)
                    if dim is None:
                        _CTX.branch("dim.none")
                    _guard(judge_es, _CTX, name, input.detach(), p, dim, out.detach(), _sig(name, input, dim))
                return out
        elif name == "value_at_risk":
            def fn(input, p, dim=None):
                out = orig(input, p=p, dim=dim)
                if _CTX is not None:
                    _CTX.seen(name)
                    _guard(judge_var, _CTX, name, input.detach(), p, dim, out.detach(), _sig(name, input, dim))
                return out
        elif name == "quadratic_cvar":
            def fn(input, lam, dim=None):
                try:
                    out = orig(input, lam, dim)
                except (RuntimeError, ValueError) as ex:
                    # the search fails in three ways on a column that is constant at the resolution of its dtype: iteration cap, empty bracket, log10(0)
                    if _CTX is None or dim is None or not any(m_ in str(ex) for m_ in ("max_iter", "math domain error", "lower < upper")):
                        raise
                    xm = input.detach().movedim(dim, 0).to(F64)
                    rel = (xm.amax(0) - xm.amin(0)) / (xm.abs().amax(0) + 1e-300)  # per column: a column is its own sample
                    spread = float(rel.min())
                    near_const = spread <= 1e-5
                    _CTX.seen(name)
                    _CTX.violation(name, "qcvar.bisect_max_iter_near_constant_sample" if near_const else "qcvar.bisect_max_iter",
                                   f"quadratic_cvar raised {type(ex).__name__}: {ex} (smallest relative column spread {spread!r}, max|x| {float(xm.abs().max())!r}, dtype {input.dtype})",
                                   sample=input.detach().reshape(-1)[:40], lam=lam, dim=dim)
                    return input.new_full(exp_shape(input, dim), float("nan"))
                if _CTX is not None and dim is not None:  # dim=None recurses into the dim=0 form, judged there
                    _CTX.seen(name)
                    _guard(judge_qcvar, _CTX, name, input.detach(), lam, dim, out.detach(), _sig(name, input, dim, (lam >= 50,)))
                return out
        else:
            raise ValueError(name)
        return fn

    return make


def _guard(fn, ctx, *a):
    try:
        fn(ctx, *a)
    except Exception as e:
        from ..core import HarnessError

        raise HarnessError(f"{fn.__name__} oracle failed: {e!r}")


def setup(ctx):
    global _CTX
    _CTX = ctx
    sites = {}
    for name in ("entropic_risk_measure", "expected_shortfall", "value_at_risk", "quadratic_cvar"):
        sites[name] = contracts.wrap_function("pfhedge.nn.functional", name, _mk(name))
    ctx.extra["binding_sites"] = sites


# ---- drivers -----------------------------------------------------------------------------------
def gen_sample(rng, dtype=None, positive=False, moderate=False):
    dtype = dtype or pick(rng, [F32, F64, F64])
    n = int(pick(rng, [1, 2, 3, 5, 10, 10, 100, 1000 if rng.random() < 0.3 else 37]))
    trail = pick(rng, [(), (), (3,), (2, 3)])
    scale = 1.0 if (moderate or rng.random() < 0.6) else float(10 ** rng.uniform(-6, 6))
    x, style = sample(rng, (n,) + tuple(trail), dtype, scale=scale)
    if positive:
        x = x.abs() + float(pick(rng, [0.1, 1.0, 1e-3])) * scale
    elif not moderate and n >= 2:
        u = rng.random()
        if u < 0.12:
            # one outcome orders of magnitude above the rest (a jackpot path): the tail statistics are about the small ones
            x = x.clone()
            x[int(rng.integers(n))] = abs(float(x.abs().max())) * 1e6 + 1e6 * scale
            style += "+outlier"
        elif u < 0.24 and trail:
            # columns sitting at very different cash levels (the same strategy booked against different fixed amounts)
            lev = t(rng.standard_normal(tuple(trail)) * float(pick(rng, [1e3, 1e5, 1e6])) * scale, dtype)
            x = x + lev
            style += "+column_levels"
    return x, style, scale


def pick_p(rng, n):
    kind = pick(rng, ["k/N", "k/N", "k/N+", "k/N-", "uniform", "one", "small", "literal"])
    k = int(rng.integers(1, n + 1))
    if kind == "k/N":
        return k / n, kind
    if kind == "k/N+":
        return min(k / n + 1e-12, 1.0), kind
    if kind == "k/N-":
        return max(k / n - 1e-12, 1e-15), kind
    if kind == "one":
        return 1.0, kind
    if kind == "small":
        return float(10 ** rng.uniform(-6, -2)), kind
    if kind == "literal":
        return float(pick(rng, [0.1, 0.3, 0.5, 0.9, 0.05, 0.7])), kind
    return float(rng.uniform(1e-3, 1.0)), kind


def drv_functional(ctx, k, rng):
    x, style, scale = gen_sample(rng)
    n = x.shape[0]
    a = float(10 ** rng.uniform(-3, 2)) if rng.random() < 0.7 else float(pick(rng, [1.0, 10.0, 100.0]))
    F.entropic_risk_measure(x, a)
    # explicit dims
    dim = pick(rng, [None, 0, 0, -1, x.dim() - 1, -x.dim()])
    nn = x.numel() if dim is None else x.shape[dim]
    p, pk = pick_p(rng, nn)
    F.expected_shortfall(x, p, dim=dim)
    p2, _ = pick_p(rng, nn)
    F.value_at_risk(x, p2, dim=dim)
    lam = float(pick(rng, [1.0, 2.0, 10.0, 100.0, 1000.0])) if rng.random() < 0.6 else float(10 ** rng.uniform(0, 3))
    if nn <= 400:
        F.quadratic_cvar(x, lam, dim=dim)
    if k % 20 == 7:
        # the median level of an odd-sized sample (p N = k + 1/2 exactly: half-way between two order statistics)
        xo = t(rng.standard_normal((int(pick(rng, [3, 5, 37])),)), x.dtype)
        F.expected_shortfall(xo, 0.5, dim=0)
        ctx.branch("var.median_of_odd_sample")
        # between two order statistics the value at risk is only required to be monotone in p: a ladder of levels around the median
        no = xo.shape[0]
        ladder = sorted({max(0.5 - 1 / (2 * no), 1e-6), 0.5 - 1 / (4 * no), 0.5 - 1e-9, 0.5, 0.5 + 1e-9, 0.5 + 1 / (4 * no), min(0.5 + 1 / (2 * no), 1.0)})
        vals = [float(F.value_at_risk(xo, p_, dim=0)) for p_ in ladder]
        ctx.seen("var.monotone_in_p")
        e_ = float(torch.finfo(xo.dtype).eps)
        okm = all(vals[i] <= vals[i + 1] + 8 * e_ * (abs(vals[i]) + abs(vals[i + 1])) for i in range(len(vals) - 1))
        ctx.check("var.monotone_in_p", okm, "var_not_monotone", f"value at risk not monotone in p around the median of an odd-sized sample: levels {ladder} give {vals}",
                  sig=("median", no, str(xo.dtype)), sample=xo, levels=ladder, values=vals)
    if k % 20 == 13:
        # a long sample (the tail holds thousands of outcomes)
        xl = t(rng.standard_normal((int(pick(rng, [3000, 6000])),)), x.dtype)
        pl_ = float(pick(rng, [0.5, 0.75, 0.9, 1.0]))
        F.expected_shortfall(xl, pl_, dim=0)
        F.value_at_risk(xl, float(pick(rng, [0.5, 0.75, 0.9])), dim=0)
        ctx.branch("es.long_sample")
    # topp: the k = ceil(p N) extreme elements, values sorted, indices pointing at them
    mon = "topp"
    ctx.seen(mon)
    largest = bool(rng.random() < 0.5)
    try:
        tp = F.topp(x, p, dim=dim, largest=largest)
    except RuntimeError as ex:
        if dim is None and x.dim() > 1 and "out of range" in str(ex):
            ctx.violation(mon, "es.dim_none_multidim", f"topp(dim=None) on a {x.dim()}-d input raised: {ex}", shape=list(x.shape), p=p)
            return
        raise
    flat = x.reshape(-1) if dim is None else x
    d_ = 0 if dim is None else dim
    ks = R.es_counts(p, nn)
    srt = flat.sort(dim=d_ if dim is not None else 0, descending=largest).values
    okk = tp.values.shape[d_ if dim is not None else 0] in ks
    if okk:
        kk = tp.values.shape[d_ if dim is not None else 0]
        okk = torch.equal(tp.values, srt.narrow(d_ if dim is not None else 0, 0, kk)) and torch.equal(
            flat.gather(d_ if dim is not None else 0, tp.indices), tp.values)
    ctx.check(mon, okk, "es.dim_none_multidim" if (dim is None and x.dim() > 1) else "topp",
              f"topp(p={p}, dim={dim}, largest={largest}) is not the ceil(pN) extreme elements",
              sig=_sig("topp", x, dim, (largest, pk)), x=x, p=p, dim=dim, got=tp.values)
    # utilities, elementwise
    mon = "exp_utility"
    ctx.seen(mon)
    # exponents over the whole range the dtype can represent (|a x| up to 600 in float64, 75 in float32), not only moderate ones
    big = bool(rng.random() < 0.4)
    lim = (200.0 if x.dtype == F64 else 25.0) if big else 20.0
    if big:
        ctx.branch("exp_utility.large_exponent." + ("float64" if x.dtype == F64 else "float32"))
    xa = (x / scale * (lim / 3 if big else 1.0)).clamp(-lim, lim)
    au = float(pick(rng, [0.5, 1.0, 3.0]))
    u = F.exp_utility(xa, au)
    want = torch.tensor([float(-mpmath.e ** (-mpmath.mpf(au) * mpmath.mpf(v))) for v in xa.reshape(-1)[:8].to(F64).tolist()], dtype=F64)
    rel = 1e-13 if x.dtype == F64 else 1e-5
    e_ = float(torch.finfo(x.dtype).eps)
    relv = torch.maximum(torch.full_like(want, rel), (4 + 2 * au * xa.reshape(-1)[:8].to(F64).abs()) * e_)  # the product a*x is rounded before exp
    ctx.check(mon, bool(((u.reshape(-1)[:8].to(F64) - want).abs() <= relv * want.abs()).all()), "exp_utility",
              "exp_utility != -exp(-a x)", sig=("exp_utility", str(x.dtype), au, big), x=xa.reshape(-1)[:8], a=au, got=u.reshape(-1)[:8])
    mon = "isoelastic_utility"
    ctx.seen(mon)
    xp = xa.abs() + 0.05
    # (a just below 1 is still the power utility, not the logarithm)
    ai = float(pick(rng, [1.0, 0.5, 0.1, 0.9, 1.0 - 1e-10, math.nextafter(1.0, 0.0)]))
    u = F.isoelastic_utility(xp, ai)
    want = torch.tensor([float(mpmath.log(mpmath.mpf(v)) if ai == 1.0 else mpmath.mpf(v) ** (1 - mpmath.mpf(ai)))
                         for v in xp.reshape(-1)[:8].to(F64).tolist()], dtype=F64)
    ctx.check(mon, bool(((u.reshape(-1)[:8].to(F64) - want).abs() <= rel * (want.abs() + 1)).all()), "isoelastic_utility",
              "isoelastic_utility != x^(1-a) / log x", sig=("isoelastic", str(x.dtype), ai), x=xp.reshape(-1)[:8], a=ai, got=u.reshape(-1)[:8])
    # small positive wealth (down to the smallest normal numbers of the dtype): log / power are accurate relatively there
    ctx.seen(mon)
    lo_e = -36 if x.dtype == F32 else -300
    xt = t(10.0 ** rng.uniform(lo_e, -3, 8), x.dtype)
    u = F.isoelastic_utility(xt, ai)
    want = torch.tensor([float(mpmath.log(mpmath.mpf(v)) if ai == 1.0 else mpmath.mpf(v) ** (1 - mpmath.mpf(ai))) for v in xt.to(F64).tolist()], dtype=F64)
    ctx.check(mon, bool(((u.to(F64) - want).abs() <= 8 * rel * want.abs() + 1e-300).all()), "isoelastic_utility",
              "isoelastic_utility != x^(1-a) / log x at small positive wealth", sig=("isoelastic_tiny", str(x.dtype), ai), x=xt, a=ai, got=u)
    if k < 5:
        ctx.sample({"driver": "functional", "shape": list(x.shape), "style": style, "scale": scale, "a": a, "p": p, "p_kind": pk,
                    "dim": dim, "lam": lam, "x_head": x.reshape(-1)[:6]})


def _u_exp(x):
    return -(-x).exp()


def _u_lin_quad(x):
    return x - 0.25 * x.square()


def drv_modules(ctx, k, rng):
    x, style, scale = gen_sample(rng, moderate=True)
    n = x.shape[0]
    e = float(torch.finfo(x.dtype).eps)
    tk = pick(rng, ["none", "scalar", "tensor", "tensor"])
    tgt = 0.0 if tk == "none" else (float(rng.standard_normal()) if tk == "scalar" else sample(rng, x.shape, x.dtype, style="gauss")[0])
    a = float(pick(rng, [0.5, 1.0, 2.0, 10.0]))
    p, pk = pick_p(rng, n)
    lam = float(pick(rng, [1.0, 2.0, 10.0, 100.0]))
    if rng.random() < 0.3:
        # the parameter is a plain public attribute (shown by repr): assigning it after construction takes effect
        mods = [EntropicRiskMeasure(3.0), ExpectedShortfall(0.37), EntropicLoss(3.0)] + ([QuadraticCVaR(7.0)] if n <= 400 else [])
        for m_, (attr, val) in zip(mods, [("a", a), ("p", p), ("a", a), ("lam", lam)]):
            setattr(m_, attr, val)
        ctx.branch("module.parameter_reassigned")
    else:
        mods = [EntropicRiskMeasure(a), ExpectedShortfall(p), EntropicLoss(a)]
        if n <= 400:
            mods.append(QuadraticCVaR(lam))
    for m in mods:
        name = type(m).__name__
        out = m(x, tgt) if tk != "none" else m(x)  # functional monitors judge ERM / ES / QCVaR values on (x - target), dim 0
        # target subtracted first: bit-identical to the call on the pre-subtracted sample
        mon = "module.target_first"
        ctx.seen(mon)
        out2 = m(x - tgt)
        ctx.check(mon, out.shape == x.shape[1:] and torch.equal(out, out2), "target_first",
                  f"{name}(input, target) != {name}(input - target) or wrong shape {tuple(out.shape)}", sig=(name, tk, x.dim()),
                  x=x, target=tgt, got=out, want=out2)
        # the module is its functional form at the module's *current* parameter (the functional's value is judged by the passive oracle)
        fn_ = {"EntropicRiskMeasure": lambda d_: F.entropic_risk_measure(d_, a), "ExpectedShortfall": lambda d_: F.expected_shortfall(d_, p, dim=0),
               "QuadraticCVaR": lambda d_: F.quadratic_cvar(d_, lam, dim=0)}.get(name)
        if fn_ is not None:
            mon = "module.is_functional_at_current_parameter"
            ctx.seen(mon)
            ref = fn_(x - tgt)
            ctx.check(mon, out.shape == ref.shape and bool(((out == ref) | (torch.isnan(out) & torch.isnan(ref))).all()), "module_vs_functional",
                      f"{name} with parameter {getattr(m, 'a', getattr(m, 'p', getattr(m, 'lam', None)))!r} differs from its functional form at that parameter",
                      sig=(name, x.dim(), str(x.dtype)), got=out, want=ref)
        if name == "EntropicLoss":
            mon = "module.EntropicLoss"
            ctx.seen(mon)
            ok = True
            d = x - tgt
            for j, col in columns(d, 0):
                want = -R.exp_utility_mean(col, a)
                if want * len(col) > float(torch.finfo(x.dtype).max) / 4:
                    ctx.skipped(mon, "exp_overflows_dtype")  # the loss (unlike the risk measure) legitimately overflows
                    continue
                got = out_at(out, 0, d, j)
                if not abs(mpmath.mpf(got) - want) <= (n + 16) * e * want * (1 + a * max(abs(c) for c in col)):
                    ok = False
            ctx.check(mon, ok, "value", "EntropicLoss != -mean(-exp(-a x))", sig=(name, ncls(n), str(x.dtype), x.dim(), a), x=d, a=a, got=out)
    # isoelastic on positive samples
    xp = x.abs() + 0.1
    ai = float(pick(rng, [1.0, 0.5, 0.1, 1.0 - 1e-10]))
    m = IsoelasticLoss(ai)
    if rng.random() < 0.3:
        m = IsoelasticLoss(0.7)
        m.a = ai
    out = m(xp + tgt, tgt) if tk != "none" else m(xp)
    d = (xp + tgt) - tgt if tk != "none" else xp
    mon = "module.IsoelasticLoss"
    ctx.seen(mon)
    ok = out.shape == x.shape[1:]
    for j, col in columns(d, 0):
        if min(col) <= 0:
            continue
        want = -R.isoelastic_mean(col, ai)
        got = out_at(out, 0, d, j)
        if not abs(mpmath.mpf(got) - want) <= (n + 16) * e * (abs(want) + 1 + max(abs(math.log(c)) for c in col)):
            ok = False
    ctx.check(mon, ok, "value", "IsoelasticLoss != -mean utility", sig=("IsoelasticLoss", ncls(n), str(x.dtype), x.dim(), ai), x=d, a=ai, got=out)
    # small positive wealth on some paths (down to the smallest normal numbers of the dtype), with and without a target
    ctx.seen(mon)
    lo_e = -36 if x.dtype == F32 else -300
    wt = t(10.0 ** rng.uniform(lo_e, 0, 6), x.dtype)
    tg2 = float(pick(rng, [0.0, 0.0, 0.25]))
    out = m(wt + tg2, tg2) if tg2 else m(wt)
    col = (wt + tg2 - tg2 if tg2 else wt).to(F64).tolist()
    okt = True
    if min(col) > 0:
        want = -R.isoelastic_mean(col, ai)
        okt = abs(mpmath.mpf(float(out)) - want) <= 64 * e * (abs(want) + max(abs(math.log(c)) for c in col) if ai == 1.0 else abs(want) + 1e-300)
    ctx.check(mon, okt, "value", "IsoelasticLoss != -mean utility at small positive wealth", sig=("IsoelasticLoss.tiny", str(x.dtype), ai, bool(tg2)), x=wt, a=ai,
              target=tg2, got=out)
    # OCE with assigned w
    mon = "module.OCE"
    ctx.seen(mon)
    util = pick(rng, [_u_exp, _u_lin_quad])
    m = OCE(util).to(x.dtype)
    w = float(pick(rng, [0.0, 0.3, -0.7, 1.5]))
    with torch.no_grad():
        m.w.fill_(w)
        xm = (x / max(scale, 1e-300)).clamp(-5, 5)
        out = m(xm, tgt) if tk != "none" else m(xm)
    d = xm - tgt
    ok = out.shape == x.shape[1:]
    wd = torch.tensor(w, dtype=x.dtype).item()
    for j, col in columns(d, 0):
        if util is _u_exp:
            want = mpmath.mpf(wd) - mpmath.fsum(-mpmath.e ** (-(mpmath.mpf(c) + wd)) for c in col) / n
        else:
            want = mpmath.mpf(wd) - mpmath.fsum((mpmath.mpf(c) + wd) - mpmath.mpf("0.25") * (mpmath.mpf(c) + wd) ** 2 for c in col) / n
        got = out_at(out, 0, d, j)
        mag = 1 + abs(wd) + max(abs(c) for c in col)
        if not abs(mpmath.mpf(got) - want) <= (n + 32) * e * (mag**2 + float(mpmath.e ** mag if util is _u_exp else 0)):
            ok = False
    ctx.check(mon, ok, "value", "OCE != w - mean u(x + w)", sig=("OCE", util.__name__, ncls(n), str(x.dtype), x.dim(), w), x=d, w=w, got=out)
    if k < 3:
        ctx.sample({"driver": "modules", "shape": list(x.shape), "target": tk, "a": a, "p": p, "lam": lam})


def drv_witness(ctx, k, rng):
    """Fixed witnesses of the known findings (so that every run exhibits each listed finding, or shows it is gone)."""
    if k == 0:
        F.quadratic_cvar(torch.full((5,), 1.25, dtype=F64), 2.0, dim=0)  # true value -1.375
    elif k == 1:
        F.quadratic_cvar(torch.full((10,), 4060.885009765625, dtype=F32), 4.815820373175851, dim=0)
    elif k == 2:
        x = t(np.arange(12.0).reshape(3, 4), F64)
        F.expected_shortfall(x, 0.5)  # k = ceil(0.5*12) = 6 > last-dim size 4
    elif k == 3:
        # an ordinary column next to one that is constant at float32 resolution: the first column's true value is 0.34512
        x = torch.tensor([[-0.34759521484375, 3060119.5], [-0.3045158386230469, 3060119.5], [-0.13638892769813538, 3060119.5]], dtype=F32)
        F.quadratic_cvar(x, 303.36865483144476, dim=0)


DRIVERS = [
    ("witness", 4, 4, drv_witness),
    ("functional", 260, 20000, drv_functional),
    ("modules", 160, 8000, drv_modules),
]
