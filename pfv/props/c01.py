"""C01 - hedging P&L is the self-financing wealth identity.

Passive contract on pfhedge.nn.functional.pl (all aliases, incl. the name imported into hedger.py)
with an exact-rational oracle, plus a contract on Hedger.compute_pl / compute_portfolio that
recomputes the identity from the hedging instruments' prices, the hedge tapped at
compute_hedge's return, their cost rates and the derivative's payoff.
"""
from fractions import Fraction

import numpy as np
import torch

import pfhedge.nn.functional as F
from pfhedge.nn import Hedger

from .. import contracts
from .. import pipelines as P
from ..gen import F32, F64, fr_list, pick, price_paths, t

RULE = (
    "functional driver: (N,H,T) x dtype x cost-class x payoff x first-cost flag x value style, oracle = exact "
    "rational evaluation of the wealth identity on the tensors' exact values (row subsample incl. first/last "
    "row for big calls); hedger driver: random derivative x underlier x hedge-list x model pipelines, oracle "
    "recomputed from instrument prices, tapped hedge, cost rates, payoff. distinct = distinct class signatures; "
    "trivial = all-zero unit or cost None/zero with no payoff"
)
ASSUMPTIONS = [
    "cost rates are rounded by the library to float32 (torch.tensor(list) default dtype) before use; the bound "
    "admits that rounding (1 eps(float32) relative on the cost term)",
    "forward error bound 4*(3HT+4)*eps*sum|terms|; realistic defects are O(1) relative",
    "CPU only",
]
ANCHORS = ['pfhedge.nn.functional:pl',
           'pfhedge.nn.functional:terminal_value',
           'pfhedge.nn.modules.hedger:Hedger.compute_portfolio',
           'pfhedge.nn.modules.hedger:Hedger.compute_pl']
PYTEST_WORKLOAD = True  # thorough tier also runs /repo/tests with these passive monitors attached (DESIGN.md 2.7)
DECIDING = ["pl.exact", "hedger.pl_identity", "terminal_value.alias"]
REQUIRED_BRANCHES = ["pl.cost_none", "pl.cost_given", "pl.first_cost_off", "pl.payoff_none", "hedger.compute_portfolio", "hedger.compute_pl", "hedger.second_simulation"]

_CTX = None
_TAPS = []
MAX_ROWS = 6


def exact_pl(spot, unit, cost, payoff, first):
    """spot, unit: [H][T] Fractions for one path. Returns (value, sum of |gain terms|, sum of |cost terms|, sum of |position| * (|S_t| + |S_t+1|))."""
    H, T = len(spot), len(spot[0])
    val = Fraction(0)
    mag = Fraction(0)
    cmag = Fraction(0)
    smag = Fraction(0)
    for h in range(H):
        for i in range(T - 1):
            g = unit[h][i] * (spot[h][i + 1] - spot[h][i])
            val += g
            mag += abs(g)
            smag += abs(unit[h][i]) * (abs(spot[h][i + 1]) + abs(spot[h][i]))
        if cost is not None:
            c = cost[h]
            tc = Fraction(0)
            ta = Fraction(0)
            for i in range(1, T):
                tc += abs(unit[h][i] - unit[h][i - 1]) * spot[h][i]
                ta += abs(unit[h][i] - unit[h][i - 1]) * abs(spot[h][i])
            if first:
                tc += abs(unit[h][0]) * spot[h][0]
                ta += abs(unit[h][0]) * abs(spot[h][0])
            val -= c * tc
            cmag += abs(c) * ta
    if payoff is not None:
        val -= payoff
        mag += abs(payoff)
    return val, mag, cmag, smag


def _rows(n, rng_seed):
    if n <= MAX_ROWS:
        return list(range(n))
    r = np.random.default_rng(rng_seed)
    rows = {0, n - 1}
    while len(rows) < MAX_ROWS:
        rows.add(int(r.integers(n)))
    return sorted(rows)


def judge_pl(ctx, monitor, out, spot, unit, cost, payoff, first, sig, extra=None):
    """Compare ``out`` (N,) with the exact identity on a row subsample."""
    if spot.dim() != 3 or unit.shape != spot.shape or out.shape != spot.shape[:1]:
        ctx.violation(monitor, "shape", f"output shape {tuple(out.shape)} for spot {tuple(spot.shape)}", sig=sig)
        return
    if not (torch.isfinite(spot).all() and torch.isfinite(unit).all()):
        ctx.ood(monitor)
        return
    N, H, T = spot.shape
    if T < 2:
        ctx.ood(monitor)
        return
    dtype = spot.dtype
    if dtype not in (F32, F64):
        ctx.unsupported(monitor)
        return
    e = float(torch.finfo(dtype).eps)
    e32 = float(torch.finfo(F32).eps)
    rows = _rows(N, N * 7919 + T)
    cost_fr = None
    if cost is not None:
        cost_fr = [Fraction(float(c)) for c in cost]
        if len(cost_fr) != H:
            ctx.ood(monitor)
            return
    sp = fr_list(spot[rows])
    un = fr_list(unit[rows])
    po = fr_list(payoff[rows]) if payoff is not None else None
    outv = out[rows].detach().to(F64).tolist()
    worst = None
    for j, r in enumerate(rows):
        val, mag, cmag, smag = exact_pl(sp[j], un[j], cost_fr, po[j] if po is not None else None, first)
        # (+ gradual underflow: every product / sum may lose up to one smallest subnormal of the dtype)
        # (+ the gains summed as sum(position * S_t+1) - sum(position * S_t) instead of sum(position * price change): an equally valid evaluation of the
        #  same identity whose rounding error is governed by |position| * |price| rather than |position| * |price change|)
        bound = (4 * (3 * H * T + 4) * e * float(mag + cmag) + (H * T + 4) * e * float(smag) + 2 * e32 * float(cmag)
                 + 4 * (3 * H * T + 4) * float(torch.finfo(dtype).tiny) * e)
        got = outv[j]
        err = abs(Fraction(got) - val) if np.isfinite(got) else None
        if err is None or float(err) > bound:
            worst = (r, got, float(val), bound)
            break
    trivial = bool((unit == 0).all())
    if worst is None:
        ctx.ok(monitor, sig=sig, trivial=trivial)
    else:
        r, got, val, bound = worst
        d = dict(row=r, observed=got, oracle=val, bound=bound, spot=spot[r], unit=unit[r], cost=cost,
                 payoff=None if payoff is None else payoff[r], deduct_first_cost=first)
        if extra:
            d.update(extra)
        ctx.violation(monitor, "identity", f"P&L {got!r} != wealth identity {val!r} (|diff| > {bound:.3g}) on path {r}",
                      sig=sig, **d)


def _sig_of(spot, cost, payoff, first):
    N, H, T = spot.shape
    ncls = "1" if N == 1 else ("small" if N <= 5 else "big")
    tcls = str(T) if T <= 4 else ("mid" if T <= 10 else "long")
    if cost is None:
        ccls = "none"
    elif all(float(c) == 0 for c in cost):
        ccls = "zero"
    elif len(set(float(c) for c in cost)) > 1:
        ccls = "distinct"
    else:
        ccls = "same"
    return (ncls, H, tcls, str(spot.dtype), ccls, payoff is not None, bool(first), H == T)


def _make_pl(orig):
    def pl(spot, unit, cost=None, payoff=None, deduct_first_cost=True, deduct_final_cost=False):
        ctx = _CTX
        out = orig(spot, unit, cost=cost, payoff=payoff, deduct_first_cost=deduct_first_cost,
                   deduct_final_cost=deduct_final_cost)
        if ctx is None:
            return out
        ctx.seen("pl.exact")
        try:
            ctx.branch("pl.cost_none" if cost is None else "pl.cost_given")
            if not deduct_first_cost:
                ctx.branch("pl.first_cost_off")
            if payoff is None:
                ctx.branch("pl.payoff_none")
            judge_pl(ctx, "pl.exact", out, spot.detach(), unit.detach(), cost,
                     None if payoff is None else payoff.detach(), deduct_first_cost,
                     _sig_of(spot, cost, payoff, deduct_first_cost))
        except Exception as e:  # oracle trouble must not masquerade as a library failure
            from ..core import HarnessError

            raise HarnessError(f"pl oracle failed: {e!r}")
        return out

    return pl


def _make_compute_hedge(orig):
    def compute_hedge(self, derivative, hedge=None):
        out = orig(self, derivative, hedge)
        if _TAPS:
            _TAPS[-1]["hedge"] = out
        return out

    return compute_hedge


def _make_hedger_pl(which):
    def make(orig):
        def method(self, derivative, hedge=None):
            ctx = _CTX
            rec = {}
            _TAPS.append(rec)
            try:
                out = orig(self, derivative, hedge)
            finally:
                _TAPS.pop()
            if ctx is None:
                return out
            mon = "hedger.pl_identity"
            ctx.seen(mon)
            ctx.branch("hedger." + which)
            hl = hedge if hedge is not None else list(derivative.underliers())
            with torch.no_grad():
                # a listed derivative's price is recomputed through its pricer (not read back through .spot, which is the code under test)
                spots = torch.stack([h.pricer(h) if getattr(h, "pricer", None) is not None else h.spot for h in hl], dim=1)
                costs = [h.cost for h in hl]
                payoff = derivative.payoff() if which == "compute_pl" else None
            unit = rec.get("hedge")
            if unit is None:
                ctx.violation(mon, "no_hedge_tap", "compute_hedge was not called by " + which)
                return out
            sig = ("hedger", which, len(hl), str(spots.dtype), type(derivative).__name__,
                   type(derivative.ul()).__name__, type(self.model).__name__,
                   tuple(type(h).__name__ + (":listed" if hasattr(h, "pricer") else "") for h in hl),
                   any(c != 0 for c in costs))
            judge_pl(ctx, mon, out.detach(), spots.detach(), unit.detach(), costs,
                     None if payoff is None else payoff.detach(), True, sig,
                     extra={"which": which, "hedge_list": [repr(h)[:80] for h in hl]})
            return out

        return method

    return make


def setup(ctx):
    global _CTX
    _CTX = ctx
    sites = contracts.wrap_function("pfhedge.nn.functional", "pl", _make_pl)
    ctx.extra["pl_binding_sites"] = sites
    contracts.wrap_method(Hedger, "compute_hedge", _make_compute_hedge)
    contracts.wrap_method(Hedger, "compute_pl", _make_hedger_pl("compute_pl"))
    contracts.wrap_method(Hedger, "compute_portfolio", _make_hedger_pl("compute_portfolio"))


# ---- drivers ----------------------------------------------------------------------------------
def drv_functional(ctx, k, rng):
    N = int(pick(rng, [1, 1, 2, 3, 5, 17, 64]))
    H = int(pick(rng, [1, 1, 2, 3, 5]))
    T = int(pick(rng, [2, 2, 3, 4, 7, 30, H if H >= 2 else 2]))
    dtype = pick(rng, [F32, F64, F64])
    mag = float(10 ** rng.uniform(-6, 6)) if rng.random() < 0.3 else 1.0
    if rng.random() < 0.7:
        spot = torch.stack([price_paths(rng, N, T, dtype, ties=rng.random() < 0.2) for _ in range(H)], dim=1) * mag
    else:
        spot = t(rng.standard_normal((N, H, T)) * mag, dtype)
    style = pick(rng, ["gauss", "ties", "hold", "short", "zero", "big"])
    u = rng.standard_normal((N, H, T))
    if style == "ties":
        u = np.round(u * 2) / 2
    elif style == "hold":
        keep = rng.random((N, H, T)) < 0.6
        for i in range(1, T):
            u[:, :, i] = np.where(keep[:, :, i], u[:, :, i - 1], u[:, :, i])
    elif style == "short":
        u = -np.abs(u)
    elif style == "zero":
        u = u * 0
    elif style == "big":
        u = u * 1e5
    unit = t(u, dtype)
    ck = pick(rng, ["none", "zero", "same", "distinct", "distinct", "large"])
    if ck == "none":
        cost = None
    elif ck == "zero":
        cost = [0.0] * H
    elif ck == "same":
        cost = [float(pick(rng, [1e-4, 1e-3, 1e-2]))] * H
    elif ck == "distinct":
        cost = [float(10 ** rng.uniform(-5, -1)) for _ in range(H)]
    else:
        cost = [float(rng.uniform(0.05, 0.5)) for _ in range(H)]
    payoff = None if rng.random() < 0.3 else t(rng.standard_normal(N) * mag, dtype)
    first = bool(rng.random() < 0.6)
    view = pick(rng, ["plain", "plain", "strided", "expanded"])
    if view == "strided":
        spot = spot.transpose(0, 2).contiguous().transpose(0, 2)
        unit = unit.transpose(1, 2).contiguous().transpose(1, 2)
    elif view == "expanded" and N > 1:
        spot = spot[:1].expand(N, H, T)
    s0, u0 = spot.clone(), unit.clone()
    out = F.pl(spot, unit, cost=cost, payoff=payoff, deduct_first_cost=first)
    # alias: terminal_value must be bit-identical to pl
    ctx.seen("terminal_value.alias")
    out2 = F.terminal_value(spot, unit, cost=cost, payoff=payoff, deduct_first_cost=first)
    ctx.check("terminal_value.alias", torch.equal(out, out2), "alias", "terminal_value(...) differs from pl(...)",
              sig=(H, T, str(dtype), ck), spot=spot, unit=unit, cost=cost, payoff=payoff, first=first)
    ctx.check("pl.inputs_untouched", torch.equal(s0, spot) and torch.equal(u0, unit), "mutated_inputs",
              "pl modified its inputs", sig=(view,))
    if k < 6:
        ctx.sample({"driver": "functional", "N": N, "H": H, "T": T, "dtype": str(dtype), "unit_style": style,
                    "cost": cost, "first": first, "payoff": payoff is not None, "spot_row0": spot[0], "unit_row0": unit[0],
                    "pl_row0": out[0]})


def drv_hedger(ctx, k, rng):
    derivative, hedge, hedger, n_paths, desc = P.scenario(rng)
    derivative.simulate(n_paths=n_paths)
    P.materialize(hedger, derivative, hedge)
    with torch.no_grad():
        a = hedger.compute_pl(derivative, hedge)
        b = hedger.compute_portfolio(derivative, hedge)
        # relation between the two: pl = portfolio - payoff (same hedge, deterministic models)
        pay = derivative.payoff()
    ctx.seen("hedger.pl_minus_portfolio")
    e = float(torch.finfo(a.dtype).eps)
    scale = (a.abs() + b.abs() + pay.abs()).to(F64)
    diff = (a.to(F64) - (b.to(F64) - pay.to(F64))).abs()
    uses_empty = any(str(f) == "empty" for f in hedger.inputs.features if hasattr(f, "name"))
    fin = torch.isfinite(a) & torch.isfinite(b)
    if not bool(fin.all()):
        # non-finite hedges (Black-Scholes Greeks at exactly zero volatility) are the subject of C18, not of the identity
        ctx.skipped("hedger.pl_minus_portfolio", "non_finite_hedge_see_C18")
    ok = bool((diff[fin] <= (64 * e * scale + 1e-300)[fin]).all()) and bool((torch.isnan(a) == torch.isnan(b)).all())
    ctx.check("hedger.pl_minus_portfolio", ok, "pl_vs_portfolio",
              "compute_pl != compute_portfolio - payoff", sig=(desc["derivative"], desc["hedge"], desc["model"]),
              desc=desc, pl=a, portfolio=b, payoff=pay)
    # a second simulation with the same path count: prices of listed hedges, payoffs and features must follow the new paths
    if rng.random() < 0.6:
        ctx.branch("hedger.second_simulation")
        if rng.random() < 0.5:
            derivative.simulate(n_paths=n_paths)
        else:
            derivative.ul().simulate(n_paths=n_paths, time_horizon=derivative.maturity)  # directly through the shared underlier
        with torch.no_grad():
            hedger.compute_pl(derivative, hedge)
            hedger.compute_portfolio(derivative, hedge)
    if rng.random() < 0.3:
        # the older spelling compute_pnl(derivative, hedge, n_paths, init_state) = simulate, then compute_pl (each judged by the identity contract as well)
        sd = int(rng.integers(1 << 30))
        mon = "hedger.compute_pnl_is_simulate_then_pl"
        ctx.seen(mon)
        with torch.no_grad():
            torch.manual_seed(sd)
            x = hedger.compute_pnl(derivative, hedge, n_paths=n_paths)
            torch.manual_seed(sd)
            derivative.simulate(n_paths=n_paths)
            y = hedger.compute_pl(derivative, hedge)
        ctx.check(mon, x.shape == y.shape and bool(((x == y) | (torch.isnan(x) & torch.isnan(y))).all()), "compute_pnl",
                  "compute_pnl(derivative, hedge, n_paths) differs from simulate(n_paths) followed by compute_pl under the same seed",
                  sig=(desc["derivative"], desc["hedge"], desc["model"]), desc=desc, compute_pnl=x[:4], simulate_then_pl=y[:4])
    if k < 4:
        ctx.sample({"driver": "hedger", **desc, "pl_head": a[:3]})


DRIVERS = [
    ("functional", 400, 30000, drv_functional),
    ("hedger", 120, 3000, drv_hedger),
]
