"""C11 - simulated buffers are well-formed for every generator and instrument.

Passive postconditions on every generate_* return (all aliases) and on simulate() of the whole
BasePrimary subclass tree (entry: snapshot of the old buffer objects; exit: inspect named_buffers()),
driven by shape / dtype / initial-state / parameter-regime sweeps and re-simulation histories.
"""
import inspect
import math

import numpy as np
import torch

import pfhedge.stochastic as ST
from pfhedge.instruments import BasePrimary
from pfhedge.instruments import BrownianStock
from pfhedge.instruments import CIRRate
from pfhedge.instruments import HestonStock
from pfhedge.instruments import KouJumpStock
from pfhedge.instruments import LocalVolatilityStock
from pfhedge.instruments import MertonJumpStock
from pfhedge.instruments import RoughBergomiStock
from pfhedge.instruments import VasicekRate

from .. import contracts
from .. import pipelines as P
from ..gen import F32, F64, pick

RULE = (
    "generators: 9 generate_* x n_paths {1,2,5,1000} x n_steps {1,2,3,21,250} x default / non-default scalar initial states (floats, "
    "0-dim tensors, 0 for rates, states != theta) x parameter regimes (defaults, high vol-of-vol + low variance, large sigma sqrt(T), "
    "jump-heavy) x dtype {None, f32, f64, f16, bf16} x global default dtype {f32, f64}; instruments: 8 primaries, repeated simulate() "
    "with changing n_paths / horizon / init_state, volatility and variance read between simulations. distinct = (generator | instrument, "
    "dtype, init-class, regime, n_steps-class)"
)
ASSUMPTIONS = [
    "first column: exact for additive / multiplicative constructions, <= 4 ulp where the scheme goes through exp(log(.))",
    "exponential-type prices must never be negative; an exact zero is admitted only as floating-point underflow, i.e. when the value one step "
    "earlier on the same path is already below 1e-12 of the initial price (for half precisions only >= 0 is required)",
    "half precisions are exercised at default-like parameters only (heavy-jump / large-volatility regimes overflow intermediate factors in 16 bits)",
    "half precisions: a backend refusal ('not implemented for Half/BFloat16') is counted as unsupported, not as a violation",
]
ANCHORS = ['pfhedge.stochastic._utils:cast_state',
           'pfhedge.stochastic.brownian:generate_brownian',
           'pfhedge.stochastic.brownian:generate_geometric_brownian',
           'pfhedge.stochastic.cir:generate_cir',
           'pfhedge.stochastic.heston:generate_heston',
           'pfhedge.stochastic.vasicek:generate_vasicek',
           'pfhedge.stochastic.merton_jump:generate_merton_jump',
           'pfhedge.stochastic.kou_jump:generate_kou_jump',
           'pfhedge.stochastic.rough_bergomi:generate_rough_bergomi',
           'pfhedge.stochastic.local_volatility:generate_local_volatility_process',
           'pfhedge.instruments.primary.brownian:BrownianStock.simulate',
           'pfhedge.instruments.primary.heston:HestonStock.simulate',
           'pfhedge.instruments.primary.cir:CIRRate.simulate',
           'pfhedge.instruments.primary.vasicek:VasicekRate.simulate',
           'pfhedge.instruments.primary.merton_jump:MertonJumpStock.simulate',
           'pfhedge.instruments.primary.kou_jump:KouJumpStock.simulate',
           'pfhedge.instruments.primary.rough_bergomi:RoughBergomiStock.simulate',
           'pfhedge.instruments.primary.local_volatility:LocalVolatilityStock.simulate',
           'pfhedge.instruments.primary.base:BasePrimary.register_buffer']
PYTEST_WORKLOAD = True  # thorough tier also runs /repo/tests with these passive monitors attached (DESIGN.md 2.7)
DECIDING = ["generator.post", "simulate.post"]
REQUIRED_BRANCHES = ["dtype.float64_under_float32_default", "init.non_default", "resimulate.changed_shape", "n_steps=1", "regime.low_variance", "engine.antithetic_or_sobol.odd_paths"]

_CTX = None
GENS = ["generate_brownian", "generate_geometric_brownian", "generate_cir", "generate_heston", "generate_vasicek", "generate_merton_jump",
        "generate_kou_jump", "generate_rough_bergomi", "generate_local_volatility_process"]
EXPO = {"generate_geometric_brownian", "generate_heston", "generate_merton_jump", "generate_kou_jump", "generate_rough_bergomi"}
KEYS = {"BrownianStock": {"spot"}, "HestonStock": {"spot", "variance"}, "CIRRate": {"spot"}, "VasicekRate": {"spot"}, "MertonJumpStock": {"spot"},
        "KouJumpStock": {"spot"}, "RoughBergomiStock": {"spot", "variance"}, "LocalVolatilityStock": {"spot", "volatility"}}
EXPO_CLS = {"BrownianStock", "HestonStock", "MertonJumpStock", "KouJumpStock", "RoughBergomiStock"}


def as_float(x):
    return float(x) if not isinstance(x, torch.Tensor) else float(x.reshape(-1)[0])


def default_init(name, args):
    if name == "generate_brownian":
        return (0.0,)
    if name in ("generate_cir", "generate_vasicek"):
        return (args["theta"],)
    if name == "generate_heston":
        return (1.0, args["theta"])
    if name == "generate_rough_bergomi":
        return (1.0, args["xi"])
    return (1.0,)


_CIR_HINT = [False]


def check_series(ctx, mon, who, name, series, n_paths, n_steps, dtype_want, init, kind, sig, exact0=True, explosive=False, overflow_hint=False):
    """series: tensor; kind in price / variance / volatility / real. Returns False after recording a violation."""
    def bad(key, msg, **kw):
        ctx.violation(mon, key, f"{who}: {name} {msg}", sig=sig, **kw)
        return False

    if tuple(series.shape) != (n_paths, n_steps):
        return bad("shape", f"has shape {tuple(series.shape)}, expected {(n_paths, n_steps)}")
    if series.dtype != dtype_want:
        return bad("dtype", f"has dtype {series.dtype}, expected {dtype_want}")
    if not bool(torch.isfinite(series).all()):
        i = (~torch.isfinite(series)).nonzero()[0].tolist()
        key = "non_finite"
        if dtype_want in (torch.float16, torch.bfloat16) and ("generate_cir" in who or "generate_heston" in who) and _CIR_HINT[0]:
            # the conditional variance s2 evaluates to exactly 0 in half precision (exp(-kappa dt) rounds to 1, or the term that survives at zero
            # variance underflows) -> psi = 0 -> 0 * inf in the quadratic branch of the QE step
            # (_CIR_HINT: set by the caller's contract from kappa, dt and the dtype - the finding is this regime, not every half-precision NaN)
            key = "cir.half_precision_nan"
        elif "generate_kou_jump" in who and overflow_hint:
            # exp((mu - lambda m) t) is formed as a separate factor and overflows the dtype although the price itself is representable
            key = "kou.half_precision_factor_overflow"
        return bad(key, f"is not finite at {i}", where=i)
    half = dtype_want in (torch.float16, torch.bfloat16)
    if init is not None:
        want = torch.as_tensor(as_float(init) if not isinstance(init, torch.Tensor) else init).to(dtype_want)
        col = series[:, 0]
        e = float(torch.finfo(dtype_want).eps)
        if isinstance(init, torch.Tensor) and init.dtype.is_floating_point:
            e = max(e, float(torch.finfo(init.dtype).eps))  # exp(log(.)) is taken in the dtype of the tensor the caller supplied
        tol = 0.0 if exact0 else 4 * e * abs(float(want))
        if not bool(((col.to(F64) - float(want)).abs() <= tol).all()):
            return bad("initial_state", f"first column {col[:3].tolist()} != requested/default initial state {float(want)!r}", init=float(want))
    if kind == "price":
        if not bool((series >= 0).all()):
            return bad("non_positive", f"has negative values (min {float(series.min())!r})")
        zero = series == 0
        if bool(zero.any()) and not half:
            # zero is admitted only through underflow: the value one step earlier on that path must already be vanishingly small
            prev = torch.cat([series[:, :1], series[:, :-1]], dim=1)
            first_zero = zero & (prev != 0)
            if explosive:
                ctx.note("price_underflow_to_zero_admitted_explosive_variance")
            elif bool((first_zero[:, 0]).any()) or bool((prev[first_zero] > 1e-12 * float(series[:, 0].abs().max())).any()):
                return bad("non_positive", f"has zeros that are not floating-point underflow (value before a zero: {float(prev[first_zero].max())!r})")
            ctx.note("price_underflow_to_zero_admitted")
    if kind in ("variance", "volatility"):
        if not bool((series >= 0).all()):
            return bad("negative_variance", f"has negative values (min {float(series.min())!r})")
    return True


def _mk_gen(name):
    def make(orig):
        sgn = inspect.signature(orig)

        def fn(*a, **kw):
            ctx = _CTX
            try:
                out = orig(*a, **kw)
            except RuntimeError as ex:
                if ctx is not None and ("not implemented for" in str(ex) or "Half" in str(ex) or "BFloat16" in str(ex)):
                    ctx.unsupported("generator.post")
                raise
            if ctx is None or getattr(fn, "_busy", False):
                return out
            mon = "generator.post"
            ctx.seen(mon)
            try:
                ba = sgn.bind(*a, **kw)
                ba.apply_defaults()
                args = ba.arguments
                n_paths, n_steps = args["n_paths"], args["n_steps"]
                dtype = args.get("dtype") or torch.get_default_dtype()
                init = args.get("init_state")
                given = init is not None and not (isinstance(init, tuple) and init == sgn.parameters["init_state"].default)
                if init is None:
                    init = default_init(name, args)
                if not isinstance(init, tuple):
                    init = (init,)
                if any(isinstance(z, torch.Tensor) and z.numel() != 1 for z in init):
                    ctx.ood(mon)
                    return out
                sig = (name, str(dtype), "given" if given else "default", "T=%s" % (n_steps if n_steps <= 3 else "many"),
                       "N=1" if n_paths == 1 else "N>1")
                who = f"{name}(n_paths={n_paths}, n_steps={n_steps}, init_state={tuple(as_float(z) for z in init)}, dtype={args.get('dtype')})"
                ok = True
                _CIR_HINT[0] = False
                if name in ("generate_cir", "generate_heston") and dtype in (torch.float16, torch.bfloat16):
                    # the library's own expression for the conditional variance s2, in the dtype, at the initial variance and at variance 0 (which the
                    # scheme reaches): s2 == 0 there means psi = 0, b = inf, a = 0 and the quadratic branch evaluates 0 * inf
                    kp, th, sg, dt_ = (torch.as_tensor(float(args[z])).to(dtype) for z in ("kappa", "theta", "sigma", "dt"))
                    ex_ = (-kp * dt_).exp()
                    v0_ = torch.as_tensor(float(as_float(init[-1]))).to(dtype)

                    def s2_(v_):
                        return v_ * (sg ** 2) * ex_ * (1 - ex_) / kp + th * (sg ** 2) * ((1 - ex_).square()) / (2 * kp)

                    _CIR_HINT[0] = bool(s2_(v0_) == 0) or bool(s2_(torch.zeros_like(v0_)) == 0)
                if name in ("generate_heston", "generate_rough_bergomi"):
                    expl = bool(torch.isfinite(out.variance).all()) and float(out.variance.max()) * float(args["dt"]) > 40.0
                    ok = check_series(ctx, mon, who, "spot", out.spot, n_paths, n_steps, dtype, init[0], "price", sig, exact0=(name != "generate_heston"),
                                      explosive=expl)
                    ok = ok and check_series(ctx, mon, who, "variance", out.variance, n_paths, n_steps, dtype, init[1] if len(init) > 1 else None,
                                             "variance", sig)
                    if ok and not torch.equal(out.volatility, out.variance.clamp(min=0).sqrt()):
                        ctx.violation(mon, "volatility_not_sqrt_variance", f"{who}: volatility != sqrt(variance)", sig=sig)
                        ok = False
                elif name == "generate_local_volatility_process":
                    ok = check_series(ctx, mon, who, "spot", out.spot, n_paths, n_steps, dtype, init[0], "real", sig)
                    ok = ok and check_series(ctx, mon, who, "volatility", out.volatility, n_paths, n_steps, dtype, None, "volatility", sig)
                    if ok and not torch.equal(out.variance, out.volatility.square()):
                        ctx.violation(mon, "variance_not_volatility_squared", f"{who}: variance != volatility^2", sig=sig)
                        ok = False
                else:
                    kind = "price" if name in EXPO else ("variance" if name == "generate_cir" else "real")
                    hint = False
                    if name == "generate_kou_jump":
                        eu, ed, pu = 1 / args["jump_mean_up"], 1 / args["jump_mean_down"], args["jump_up_prob"]
                        m_ = (1 - pu) * ed / (ed + 1) + pu * eu / (eu - 1) - 1
                        drift = abs(args["mu"] - args["jump_per_year"] * m_) * args["dt"] * max(n_steps - 1, 0)
                        hint = drift > 0.8 * math.log(float(torch.finfo(dtype).max))
                    ok = check_series(ctx, mon, who, "output", out, n_paths, n_steps, dtype, init[0], kind, sig, overflow_hint=hint)
                if ok:
                    ctx.ok(mon, sig=sig)
            except Exception as ex:
                from ..core import HarnessError

                raise HarnessError(f"generator oracle failed: {ex!r}")
            return out

        return fn

    return make


def _mk_sim(orig):
    def simulate(self, n_paths=1, time_horizon=20 / 250, init_state=None):
        ctx = _CTX
        old = {n: b for n, b in self.named_buffers()} if ctx is not None else {}
        out = orig(self, n_paths=n_paths, time_horizon=time_horizon, init_state=init_state)
        if ctx is None:
            return out
        mon = "simulate.post"
        ctx.seen(mon)
        try:
            cls = type(self).__name__
            bufs = dict(self.named_buffers())
            dtype = self.dtype or torch.get_default_dtype()
            sig = (cls, str(self.dtype), "given" if init_state is not None else "default", "resim" if old else "first")
            who = f"{cls}.simulate(n_paths={n_paths}, time_horizon={time_horizon!r}, init_state={init_state})"
            if cls in KEYS and set(bufs) != KEYS[cls]:
                ctx.violation(mon, "buffer_keys", f"{who}: buffers {sorted(bufs)} expected {sorted(KEYS[cls])}", sig=sig)
                return out
            shapes = {tuple(b.shape) for b in bufs.values()}
            if len(shapes) != 1:
                ctx.violation(mon, "unequal_shapes", f"{who}: buffers have different shapes {shapes}", sig=sig)
                return out
            T = next(iter(shapes))[1] if len(next(iter(shapes))) == 2 else -1
            if T == 1:
                ctx.branch("n_steps=1")
            for n, b in bufs.items():
                if n in old and b is old[n]:
                    ctx.violation(mon, "stale_buffer", f"{who}: buffer {n} is still the tensor object of the previous simulation", sig=sig)
                    return out
            if old and any(tuple(o.shape) != next(iter(shapes)) for o in old.values()):
                ctx.branch("resimulate.changed_shape")
            init = init_state if init_state is not None else self.default_init_state
            if not isinstance(init, tuple):
                init = (init,)
            ok = True
            if "spot" in bufs:
                kind = "price" if cls in EXPO_CLS else ("variance" if cls == "CIRRate" else "real")
                # a single-step log-return below log(tiny) (variance * dt of order 100) is floating-point underflow by definition
                expl = "variance" in bufs and bool(torch.isfinite(bufs["variance"]).all()) and float(bufs["variance"].max()) * float(self.dt) > 40.0
                ok = check_series(ctx, mon, who, "spot", bufs["spot"], n_paths, T, dtype, init[0], kind, sig, exact0=(cls != "HestonStock"),
                                  explosive=expl)
            if ok and "variance" in bufs:
                ok = check_series(ctx, mon, who, "variance", bufs["variance"], n_paths, T, dtype, init[1] if len(init) > 1 else None, "variance", sig)
            if ok and cls in ("HestonStock", "RoughBergomiStock"):
                vol = self.volatility
                if vol.shape != bufs["variance"].shape or not torch.equal(vol, bufs["variance"].clamp(min=0).sqrt()):
                    ctx.violation(mon, "volatility_not_sqrt_variance", f"{who}: instrument.volatility is not the square root of the current variance "
                                  f"buffer (shape {tuple(vol.shape)} vs {tuple(bufs['variance'].shape)})", sig=sig)
                    ok = False
            if ok and cls in ("BrownianStock", "MertonJumpStock", "KouJumpStock"):
                vol, var = self.volatility, self.variance
                e = float(torch.finfo(dtype).eps)
                if vol.shape != bufs["spot"].shape or vol.dtype != dtype or not bool(((vol.to(F64) - self.sigma).abs() <= 2 * e * abs(self.sigma) + 1e-300).all()) \
                        or not bool(((var.to(F64) - self.sigma**2).abs() <= 4 * e * self.sigma**2 + 1e-300).all()):
                    ctx.violation(mon, "constant_volatility", f"{who}: volatility/variance are not the constants sigma, sigma^2 on the spot's grid", sig=sig)
                    ok = False
            if ok and cls == "LocalVolatilityStock":
                ok = check_series(ctx, mon, who, "volatility", bufs["volatility"], n_paths, T, dtype, None, "volatility", sig)
                if ok and not torch.equal(self.variance, bufs["volatility"].square()):
                    ctx.violation(mon, "variance_not_volatility_squared", f"{who}: variance != volatility^2", sig=sig)
                    ok = False
            if ok:
                ctx.ok(mon, sig=sig)
        except Exception as ex:
            from ..core import HarnessError

            raise HarnessError(f"simulate oracle failed: {ex!r}")
        return out

    return simulate


def setup(ctx):
    global _CTX
    _CTX = ctx
    sites = {}
    mods = {"generate_brownian": "brownian", "generate_geometric_brownian": "brownian", "generate_cir": "cir", "generate_heston": "heston",
            "generate_vasicek": "vasicek", "generate_merton_jump": "merton_jump", "generate_kou_jump": "kou_jump",
            "generate_rough_bergomi": "rough_bergomi", "generate_local_volatility_process": "local_volatility"}
    for name in GENS:
        sites[name] = contracts.wrap_function("pfhedge.stochastic." + mods[name], name, _mk_gen(name))
    ctx.extra["binding_sites"] = sites
    ctx.extra["simulate_sites"] = contracts.wrap_method(BasePrimary, "simulate", _mk_sim)


# ---- drivers ---------------------------------------------------------------------------------------
def scal(rng, v, dtype):
    """An initial-state component written as float or 0-dim tensor."""
    if rng.random() < 0.3:
        return torch.tensor(v, dtype=dtype if dtype in (F32, F64) else F32)
    return v


def drv_generators(ctx, k, rng):
    name = GENS[k % len(GENS)]
    n_paths = int(pick(rng, [1, 2, 5, 1000]))
    n_steps = int(pick(rng, [1, 2, 3, 21, 250 if n_paths < 1000 else 21]))
    dtype = pick(rng, [None, None, F32, F64, F64, torch.float16, torch.bfloat16])
    default64 = bool(rng.random() < 0.25)
    if default64:
        torch.set_default_dtype(F64)
    elif dtype == F64:
        ctx.branch("dtype.float64_under_float32_default")
    dt = float(pick(rng, [1 / 250, 1 / 52, 1 / 12]))
    half = dtype in (torch.float16, torch.bfloat16)
    kw = dict(dtype=dtype, dt=dt)
    nondefault = rng.random() < 0.6
    if nondefault:
        ctx.branch("init.non_default")
    regime = pick(rng, ["default", "default", "low_variance", "large_vol", "jumpy"])
    if half:
        regime = "default"  # half precisions are exercised at default-like parameters only (see ASSUMPTIONS)
    if regime == "low_variance":
        ctx.branch("regime.low_variance")
    fn = getattr(ST, name)
    if name in ("generate_brownian", "generate_geometric_brownian", "generate_merton_jump", "generate_kou_jump") and not half and rng.random() < 0.4:
        # the documented alternative engines: the shape promise holds for every path count, odd ones and a single path included
        kw["engine"] = pick(rng, [ST.randn_antithetic, ST.randn_sobol_boxmuller])
        ctx.branch("engine.antithetic_or_sobol" + (".odd_paths" if n_paths % 2 else ""))
    try:
        if name == "generate_brownian":
            if nondefault:
                kw["init_state"] = pick(rng, [(scal(rng, 0.3, dtype),), scal(rng, -2.0, dtype), (0.0,)])
            fn(n_paths, n_steps, sigma=float(pick(rng, [0.2, 1.5])), mu=float(pick(rng, [0.0, 0.3])), **kw)
        elif name == "generate_geometric_brownian":
            if nondefault:
                kw["init_state"] = pick(rng, [(scal(rng, 2.5, dtype),), scal(rng, 0.01, dtype), (100.0,)])
            fn(n_paths, n_steps, sigma=(2.0 if regime == "large_vol" and not half else 0.2), mu=float(pick(rng, [0.0, -0.2])), **kw)
        elif name in ("generate_cir", "generate_vasicek"):
            theta = float(pick(rng, [0.04, 0.01]))
            if nondefault:
                # tuple form and the bare-scalar form cast_state accepts, incl. the boundary value zero in every spelling
                kw["init_state"] = pick(rng, [(scal(rng, 0.09, dtype),), (0.0,), (scal(rng, 0.001, dtype),), (theta,), 0.0, 0, torch.tensor(0.0), 0.07])
            sig = float(pick(rng, [1.0, 2.0])) if (regime == "low_variance" and name == "generate_cir") else 0.2 if name == "generate_cir" else 0.04
            fn(n_paths, n_steps, kappa=float(pick(rng, [1.0, 0.2, 5.0])), theta=theta, sigma=sig, **kw)
        elif name == "generate_heston":
            theta = float(pick(rng, [0.04, 0.005]))
            if nondefault:
                kw["init_state"] = pick(rng, [(scal(rng, 1.3, dtype), scal(rng, 0.09, dtype)), (0.8, 0.0), (2.0, theta)])
            fn(n_paths, n_steps, kappa=float(pick(rng, [1.0, 0.3])), theta=theta, sigma=(1.5 if regime == "low_variance" else 0.2),
               rho=float(pick(rng, [-0.7, 0.0, 0.6])), **kw)
        elif name == "generate_merton_jump":
            if nondefault:
                kw["init_state"] = pick(rng, [(scal(rng, 3.0, dtype),), scal(rng, 0.5, dtype)])
            fn(n_paths, n_steps, sigma=0.2, jump_per_year=(200.0 if regime == "jumpy" else float(pick(rng, [0.0, 68.2]))),
               jump_mean=float(pick(rng, [0.0, -0.05])), jump_std=float(pick(rng, [0.02, 0.1])), **kw)
        elif name == "generate_kou_jump":
            if nondefault:
                kw["init_state"] = pick(rng, [(scal(rng, 3.0, dtype),), scal(rng, 0.5, dtype)])
            fn(n_paths, n_steps, sigma=0.2, jump_per_year=(200.0 if regime == "jumpy" and n_paths < 1000 else float(pick(rng, [0.0, 68.0]))),
               jump_mean_up=float(pick(rng, [0.02, 0.1])), jump_mean_down=float(pick(rng, [0.05, 0.2])), jump_up_prob=float(pick(rng, [0.5, 0.2, 1.0, 0.0])), **kw)
        elif name == "generate_rough_bergomi":
            xi = float(pick(rng, [0.04, 0.09]))
            if nondefault:
                kw["init_state"] = pick(rng, [(scal(rng, 1.5, dtype), scal(rng, 0.02, dtype)), (0.7, xi), (1.0, 0.16)])
            if n_steps == 1:
                try:
                    fn(n_paths, n_steps, xi=xi, **kw)
                except RuntimeError as ex:
                    ctx.seen("generator.post")
                    ctx.violation("generator.post", "rbergomi.n_steps_1_raises", f"generate_rough_bergomi(n_paths={n_paths}, n_steps=1) raised {str(ex)[:120]}",
                                  sig=(name, "T=1"))
            else:
                fn(n_paths, n_steps, alpha=float(pick(rng, [-0.4, -0.1])), rho=float(pick(rng, [-0.9, 0.0])), eta=float(pick(rng, [1.9, 0.5])), xi=xi, **kw)
        else:
            if nondefault:
                kw["init_state"] = pick(rng, [(scal(rng, 1.7, dtype),), scal(rng, 0.4, dtype)])
            # local-volatility functions users write: derived from (t, s), a python constant, a default-dtype tensor, a float64 table value
            sfn = pick(rng, [P.lv_sigma, P.lv_sigma, lambda t, s: 0.25, lambda t, s: torch.tensor(0.2), lambda t, s: torch.tensor(0.3, dtype=F64),
                             lambda t, s: torch.full_like(s, 0.15)])
            fn(n_paths, n_steps, sfn, **kw)
    except RuntimeError as ex:
        if half and ("not implemented" in str(ex) or "Half" in str(ex) or "BFloat16" in str(ex) or "expected scalar type" in str(ex)
                     or "same dtype" in str(ex) or "must have the same dtype" in str(ex)):
            ctx.unsupported("generator.post")
            ctx.note("half_precision_refused:" + name)
        else:
            raise
    if k < 9:
        ctx.sample({"driver": "generators", "generator": name, "n_paths": n_paths, "n_steps": n_steps, "dtype": str(dtype), "default64": default64,
                    "init_state": str(kw.get("init_state")), "regime": regime, "dt": dt})


def make_prim(rng, kind, dtype):
    dt = float(pick(rng, [1 / 250, 1 / 52, 0.1]))
    kw = dict(dt=dt, dtype=dtype)
    if kind == "brownian":
        return BrownianStock(sigma=float(pick(rng, [0.2, 0.7])), mu=float(pick(rng, [0.0, 0.1])), **kw)
    if kind == "heston":
        if rng.random() < 0.4:
            return HestonStock(kappa=0.5, theta=0.005, sigma=1.2, rho=-0.5, **kw)
        return HestonStock(**kw)
    if kind == "cir":
        return CIRRate(kappa=float(pick(rng, [1.0, 0.3])), theta=float(pick(rng, [0.04, 0.01])), sigma=float(pick(rng, [0.2, 1.0])), **kw)
    if kind == "vasicek":
        return VasicekRate(kappa=float(pick(rng, [1.0, 3.0])), theta=float(pick(rng, [0.04, -0.01])), sigma=0.04, **kw)
    if kind in ("merton", "kou") and rng.random() < 0.4:
        kw["engine"] = pick(rng, [ST.randn_antithetic, ST.randn_sobol_boxmuller])
    if kind == "merton":
        return MertonJumpStock(jump_per_year=float(pick(rng, [0.0, 68.0])), **kw)
    if kind == "kou":
        return KouJumpStock(jump_per_year=float(pick(rng, [0.0, 68.0])), jump_up_prob=float(pick(rng, [0.5, 0.3])), **kw)
    if kind == "rbergomi":
        return RoughBergomiStock(xi=float(pick(rng, [0.04, 0.09])), **kw)
    return LocalVolatilityStock(P.lv_sigma, **kw)


def rand_init(rng, kind, prim):
    if kind in ("brownian", "merton", "kou", "localvol"):
        return pick(rng, [None, (1.5,), (0.3,), (torch.tensor(2.0),)])
    if kind == "heston":
        return pick(rng, [None, (1.2, 0.09), (0.9, prim.theta), (1.0, 0.0)])
    if kind in ("cir", "vasicek"):
        return pick(rng, [None, (0.1,), (0.0,), (prim.theta,), (0.003,), 0.0, torch.tensor(0.0), 0.06])
    return pick(rng, [None, (1.2, 0.02), (1.0, prim.xi), (0.5, 0.2)])


def drv_instruments(ctx, k, rng):
    kinds = ["brownian", "heston", "cir", "vasicek", "merton", "kou", "rbergomi", "localvol"]
    kind = kinds[k % len(kinds)]
    dtype = pick(rng, [None, None, F32, F64, F64])
    default64 = bool(rng.random() < 0.25)
    if default64:
        torch.set_default_dtype(F64)
    elif dtype == F64:
        ctx.branch("dtype.float64_under_float32_default")
    prim = make_prim(rng, kind, dtype)
    n_sims = int(pick(rng, [1, 2, 3, 4]))
    hist = []
    for i in range(n_sims):
        n_paths = int(pick(rng, [1, 2, 5, 300]))
        steps = int(pick(rng, [0, 1, 2, 20, 60]))
        init = rand_init(rng, kind, prim)
        if init is not None:
            ctx.branch("init.non_default")
        if kind == "rbergomi" and steps == 0:
            try:
                prim.simulate(n_paths=n_paths, time_horizon=0.0, init_state=init)
            except RuntimeError as ex:
                ctx.seen("simulate.post")
                ctx.violation("simulate.post", "rbergomi.n_steps_1_raises", f"RoughBergomiStock.simulate(time_horizon=0) raised {str(ex)[:100]}",
                              sig=("RoughBergomiStock", "T=1"))
            continue
        prim.simulate(n_paths=n_paths, time_horizon=steps * prim.dt, init_state=init)
        hist.append((n_paths, steps, str(init)))
        # consumers read these between simulations (a cached value would go stale)
        if hasattr(prim, "volatility"):
            _ = prim.volatility
        if hasattr(prim, "variance"):
            _ = prim.variance
        if rng.random() < 0.2:
            prim.to(pick(rng, [F32, F64]))
    if k < 8:
        ctx.sample({"driver": "instruments", "instrument": repr(prim), "history": hist})


def drv_witness(ctx, k, rng):
    if k == 1:
        ST.generate_cir(4, 5, kappa=0.2, dtype=torch.bfloat16)
        return
    if k == 2:
        ST.generate_kou_jump(2, 40, init_state=0.5, jump_per_year=200.0, jump_mean_up=0.02, jump_mean_down=0.05, jump_up_prob=0.0, dt=1 / 12,
                             dtype=torch.float16)
        return
    try:
        ST.generate_rough_bergomi(2, 1)
    except RuntimeError as ex:
        ctx.seen("generator.post")
        ctx.violation("generator.post", "rbergomi.n_steps_1_raises", f"generate_rough_bergomi(2, 1) raised {str(ex)[:120]}", sig=("witness",))


DRIVERS = [
    ("witness", 3, 3, drv_witness),
    ("generators", 270, 9000, drv_generators),
    ("instruments", 240, 8000, drv_instruments),
]
