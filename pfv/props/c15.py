"""C15 - fit() performs exactly the documented training protocol.

Trace monitor: global optimizer step pre/post hooks, a class-level wrapper of Optimizer.zero_grad, a
tap on BaseDerivative.simulate, forward (pre-)hooks on the criterion (grad mode, hedger/model training
flag, batch size, backward via a gradient hook on the loss) and the version counters of every
parameter produce an event log per fit() call; an automaton checks it against the protocol
(DESIGN.md appendix C) and a reference loop written with the public API under the same seed must give
bit-identical parameters and the same history.
"""
import copy
import io

import numpy as np
import torch
from torch.optim import SGD
from torch.optim import Adadelta
from torch.optim import Adam
from torch.optim import Optimizer

from pfhedge._utils.lazy import has_lazy
from pfhedge.instruments import BaseDerivative
from pfhedge.nn import EntropicRiskMeasure
from pfhedge.nn import ExpectedShortfall
from pfhedge.nn import Hedger
from pfhedge.nn import IsoelasticLoss
from pfhedge.nn import MultiLayerPerceptron

from .. import contracts
from .. import pipelines as P
from ..gen import F32, F64, pick

RULE = (
    "fits: n_epochs in {0,1,2,3,5} x n_paths {1,8,33} x n_times {1,3} x validation on/off x optimiser {Adam class (default), SGD subclass with "
    "default lr (class), Adadelta class, SGD / Adam instances} x lazy and materialised models (with and without Dropout) x criteria x hedge "
    "lists x init_state {None, given} x stale gradients left by an earlier backward; each fit produces one event trace (checked by the "
    "automaton) and one reference-loop comparison. distinct = (k, n_times, validation, optimiser kind, model kind, init given, stale grads)"
)
ASSUMPTIONS = [
    "an optimiser class is instantiated as cls(hedger.model.parameters()) (what the code does; the docstring says hedger.parameters())",
    "reference loop and fit() consume the RNG identically when they perform the same operations in the same order, so parameters are bit-identical on CPU",
]
ANCHORS = ['pfhedge.nn.modules.hedger:Hedger.fit',
           'pfhedge.nn.modules.hedger:Hedger._configure_optimizer',
           'pfhedge.nn.modules.hedger:Hedger.compute_loss',
           'pfhedge._utils.operations:ensemble_mean']
DECIDING = ["trace.automaton", "reference.parameters", "reference.history", "steps.count"]
REQUIRED_BRANCHES = ["criterion_with_parameters.optimizer_instance_over_hedger", "k=0", "k>=2", "validation.off", "n_times>1", "optimizer.class", "optimizer.instance", "model.lazy", "model.dropout", "stale_grad",
                     "init_state.given", "verbose.on.validation.off", "second_fit.class", "second_fit.instance", "optimizer.instance_on_lazy_model", "loss.non_finite"]

_CTX = None
_TRACE = []  # stack of active traces


class Trace:
    def __init__(self, hedger):
        self.hedger = hedger
        self.events = []
        self.params = None
        self.versions = None

    def pver(self):
        ps = list(self.hedger.parameters())
        try:
            vs = [(id(p), p._version) for p in ps if not torch.nn.parameter.is_lazy(p)]
        except Exception:
            vs = []
        changed = self.versions is not None and vs != self.versions
        self.versions = vs
        return changed

    def add(self, kind, **kw):
        kw["kind"] = kind
        kw["pver_changed"] = self.pver()
        self.events.append(kw)


def _mk_dsim(orig):
    def simulate(self, n_paths=1, init_state=None):
        if _TRACE:
            _TRACE[-1].add("SIM", n_paths=n_paths, init_state=None if init_state is None else tuple(float(x) for x in init_state))
        return orig(self, n_paths=n_paths, init_state=init_state)

    return simulate


_orig_zero_grad = Optimizer.zero_grad


def _zero_grad(self, *a, **kw):
    if _TRACE:
        _TRACE[-1].add("ZERO")
    return _orig_zero_grad(self, *a, **kw)


def setup(ctx):
    global _CTX
    _CTX = ctx
    contracts.wrap_method(BaseDerivative, "simulate", _mk_dsim)
    Optimizer.zero_grad = _zero_grad
    from torch.optim.optimizer import register_optimizer_step_post_hook, register_optimizer_step_pre_hook

    def pre(opt, args, kwargs):
        if _TRACE:
            _TRACE[-1].add("STEP_BEGIN", opt=type(opt).__name__, n_params=sum(len(g["params"]) for g in opt.param_groups))
        return None

    def post(opt, args, kwargs):
        if _TRACE:
            _TRACE[-1].add("STEP_END")
        return None

    register_optimizer_step_pre_hook(pre)
    register_optimizer_step_post_hook(post)


def _oce_utility(x):
    return -torch.exp(-x)


class SGDDefault(SGD):
    def __init__(self, params):
        super().__init__(params, lr=0.05)


def build(rng):
    dtype = None
    stock = P.make_stock(rng, pick(rng, ["brownian", "heston", "merton"]), dtype=dtype, cost=float(pick(rng, [0.0, 1e-3])), dt=1 / 250)
    derivative = P.make_derivative(rng, stock, pick(rng, ["european", "lookback", "european"]), n_steps=int(pick(rng, [2, 4])), clauses=None)  # (a quarter of the contracts carry clauses: the loss is on payoff(), clauses included)
    hk = pick(rng, ["ul", "ul", "none", "ul+eu"])
    hedge, hk = P.make_hedge(rng, derivative, hk)
    n_h = 1 if hedge is None else len(hedge)
    feats = pick(rng, [["log_moneyness", "time_to_maturity", "volatility"], ["log_moneyness", "time_to_maturity", "volatility", "prev_hedge"]])
    prev = "prev_hedge" in feats
    n_in = len(feats) + (n_h - 1 if prev else 0)
    mk = pick(rng, ["mlp", "mlp", "lazy", "dropout", "linear"])
    if mk == "lazy":
        model = MultiLayerPerceptron(out_features=n_h, n_layers=2, n_units=5)
    elif mk == "dropout":
        model = torch.nn.Sequential(torch.nn.Linear(n_in, 6), torch.nn.Tanh(), torch.nn.Dropout(0.3), torch.nn.Linear(6, n_h))
    elif mk == "linear":
        model = torch.nn.Linear(n_in, n_h)
    else:
        model = MultiLayerPerceptron(in_features=n_in, out_features=n_h, n_layers=2, n_units=5)
    crit = pick(rng, [EntropicRiskMeasure(), ExpectedShortfall(0.5), EntropicRiskMeasure(2.0), "oce", "oce"])
    if crit == "oce":
        from pfhedge.nn.modules.loss import OCE

        crit = OCE(_oce_utility)  # a criterion with its own learnable parameter w (trained only by optimisers that hold it)
    hedger = Hedger(model, feats, criterion=crit)
    return derivative, hedge, hedger, mk, hk


def make_opt(kind, hedger):
    if kind == "adam_class":
        return Adam
    if kind == "default":
        return None
    if kind == "sgd_class":
        return SGDDefault
    if kind == "adadelta_class":
        return Adadelta
    if kind == "sgd_inst":
        return SGD(hedger.parameters(), lr=0.05)
    if kind == "adam_inst":
        return Adam(hedger.model.parameters(), lr=1e-2)
    raise ValueError(kind)


def reference(hedger, derivative, hedge, k, n, m, opt_kind, s, v, opt=None):
    """The protocol, written out with the public API.  Returns (history, optimiser used)."""
    crit = hedger.criterion
    if opt is not None:
        pass  # the caller's optimiser instance, carried over from the previous fit
    elif opt_kind in ("default", "adam_class", "sgd_class", "adadelta_class"):
        if has_lazy(hedger):
            derivative.simulate(n_paths=1)
            _ = hedger.compute_pl(derivative, hedge)
        cls = {"default": Adam, "adam_class": Adam, "sgd_class": SGDDefault, "adadelta_class": Adadelta}[opt_kind]
        opt = cls(hedger.model.parameters())
    else:
        opt = make_opt(opt_kind, hedger)
    hist = []
    for _ in range(k):
        hedger.train()
        opt.zero_grad()
        derivative.simulate(n_paths=n, init_state=s)
        loss = crit(hedger.compute_portfolio(derivative, hedge), derivative.payoff())
        loss.backward()
        opt.step()
        if v:
            hedger.eval()
            with torch.no_grad():
                vals = []
                for _ in range(m):
                    derivative.simulate(n_paths=n, init_state=s)
                    vals.append(crit(hedger.compute_portfolio(derivative, hedge), derivative.payoff()))
                val = vals[0] if m == 1 else torch.stack(vals).mean(dim=0)
            hist.append(val.item())
    return (hist if v else None), opt


def check_trace(ctx, tr, k, n, m, s, v, lazy_prefix, sig, lazy_first_forward=False):
    mon = "trace.automaton"
    ev = tr.events
    i = 0

    def fail(msg, **kw):
        ctx.violation(mon, "protocol", msg + f" (fit(n_epochs={k}, n_paths={n}, n_times={m}, validation={v}, init_state={s}))", sig=sig,
                      trace=[{kk: vv for kk, vv in e.items() if kk != "pver_changed"} for e in ev][:60], **kw)
        return False

    ctx.seen(mon)
    if lazy_prefix:
        # optional materialisation: SIM(1, None) followed by criterion-free forward (compute_pl does not call the criterion)
        if i < len(ev) and ev[i]["kind"] == "SIM" and ev[i]["n_paths"] == 1 and ev[i]["init_state"] is None:
            i += 1
        else:
            return fail("lazy model with an optimiser class: expected the materialising simulate(n_paths=1) first")
    s_t = None if s is None else tuple(float(x) for x in s)
    for e_ in range(k):
        want = [("ZERO", {}), ("SIM", {"n_paths": n, "init_state": s_t}), ("CRIT", {"grad": True, "hedger_training": True, "model_training": True, "batch": n}),
                ("BWD", {}), ("STEP_BEGIN", {}), ("STEP_END", {})]
        if v:
            for _ in range(m):
                want += [("SIM", {"n_paths": n, "init_state": s_t}), ("CRIT", {"grad": False, "hedger_training": False, "model_training": False, "batch": n})]
        for kind, attrs in want:
            if i >= len(ev):
                return fail(f"epoch {e_ + 1}: trace ends before {kind}")
            e = ev[i]
            if e["kind"] != kind:
                return fail(f"epoch {e_ + 1}: expected {kind}, observed {e['kind']} at event {i}")
            for a, val in attrs.items():
                if e.get(a) != val:
                    return fail(f"epoch {e_ + 1}: {kind}.{a} = {e.get(a)!r}, expected {val!r} at event {i}")
            if e["pver_changed"] and kind != "STEP_END" and not (lazy_prefix and e_ == 0 and kind == "ZERO") and not (lazy_first_forward and e_ == 0 and kind == "CRIT"):
                return fail(f"epoch {e_ + 1}: parameters changed outside optimizer.step() (before event {i}: {kind})")
            if kind == "STEP_END" and not e["pver_changed"]:
                return fail(f"epoch {e_ + 1}: optimizer.step() did not change any parameter")
            i += 1
    if i != len(ev):
        return fail(f"{len(ev) - i} extra events after the last epoch, first: {ev[i]['kind']}")
    ctx.ok(mon, sig=sig, trivial=(k == 0))
    return True


def drv_fit(ctx, k_, rng):
    derivative, hedge, hedger, mk, hk = build(rng)
    k = int(pick(rng, [0, 1, 2, 2, 3, 5]))
    n = int(pick(rng, [1, 8, 33]))
    m = int(pick(rng, [1, 1, 3]))
    v = bool(rng.random() < 0.7)
    s = None if rng.random() < 0.6 else ((1.1,) if type(derivative.ul()).__name__ != "HestonStock" else (1.1, 0.05))
    opt_kind = pick(rng, ["default", "adam_class", "sgd_class", "adadelta_class", "sgd_inst", "adam_inst"])
    if k_ % 12 == 5:
        # deterministic coverage of: criterion with its own learnable parameter + optimiser instance holding all of hedger.parameters()
        from pfhedge.nn.modules.loss import OCE

        hedger.criterion = OCE(_oce_utility)
        opt_kind, k = "sgd_inst", max(k, 1)
    verbose = bool(rng.random() < 0.3)
    if k_ % 12 == 7:
        # deterministic coverage of: progress display on, validation off (the display must not bring the validation pass back)
        v, verbose, k = False, True, max(k, 2)
    if verbose:
        ctx.branch("verbose.on" if v else "verbose.on.validation.off")
    second = False
    # a second fit() on the same hedger (training continued): an optimiser class is instantiated again, an instance carries its own state over
    calls = [k]
    if (k >= 1 and rng.random() < 0.35) or k_ % 12 == 9:
        k = max(k, 1)
        calls = [k, int(pick(rng, [1, 2]))]
        if k_ % 24 == 9:
            opt_kind = "default"
        elif k_ % 24 == 21:
            opt_kind = "adam_inst"
        ctx.branch("second_fit." + ("instance" if opt_kind.endswith("inst") else "class"))
        second = True
    if k_ % 24 == 13:
        n_h_ = 1 if hedge is None else len(hedge)
        hedger = Hedger(MultiLayerPerceptron(out_features=n_h_, n_layers=2, n_units=5), list(hedger.inputs.features), criterion=hedger.criterion)
        mk, opt_kind, k = "lazy", "sgd_inst", max(k, 1)
    if k_ % 24 == 17:
        # deterministic coverage: a training loss that is not finite (isoelastic utility of a hedging P&L that goes negative): the protocol is the
        # same - backward and step every epoch, one history entry per epoch
        hedger.criterion = IsoelasticLoss(0.5)
        k = max(k, 2)
    lazy = mk == "lazy"
    ctx.branch("k=0" if k == 0 else ("k>=2" if k >= 2 else "k=1"))
    if not v:
        ctx.branch("validation.off")
    if m > 1 and v:
        ctx.branch("n_times>1")
    ctx.branch("optimizer.class" if not opt_kind.endswith("inst") else "optimizer.instance")
    if lazy:
        ctx.branch("model.lazy")
    if mk == "dropout":
        ctx.branch("model.dropout")
    if s is not None:
        ctx.branch("init_state.given")
    if opt_kind == "sgd_inst" and any(True for _ in hedger.criterion.parameters()) and k > 0:
        ctx.branch("criterion_with_parameters.optimizer_instance_over_hedger")
    lazy_inst = False
    if opt_kind.endswith("inst") and lazy:
        if rng.random() < 0.5 or k_ % 24 == 13:
            # the optimiser instance is built on the still-uninitialised parameters (torch materialises them in place at the first forward):
            # fit() then performs exactly the epochs, with no placeholder simulation of its own
            lazy_inst = True
            ctx.branch("optimizer.instance_on_lazy_model")
        else:
            derivative.simulate(n_paths=1)
            with torch.no_grad():
                hedger.compute_pl(derivative, hedge)  # the docs' placeholder forward before building an optimiser instance
            lazy = False
    ref = copy.deepcopy(hedger)
    stale = (not lazy) and rng.random() < 0.4
    if stale:
        ctx.branch("stale_grad")
        for h_ in (hedger, ref):
            torch.manual_seed(7)
            h_.compute_loss(derivative, hedge, n_paths=3).backward()
        ref.load_state_dict(hedger.state_dict())
    mode0 = pick(rng, ["train", "eval"])
    for h_ in (hedger, ref):
        h_.train() if mode0 == "train" else h_.eval()
    sig = (k, m, v, opt_kind, mk, s is not None, stale, hk, verbose, len(calls))
    opt = make_opt(opt_kind, hedger)
    ref_opt = None
    hist = hist_ref = None
    tr = None
    for ci, kc in enumerate(calls):
        seed = int(rng.integers(1 << 30))
        # ---- traced fit ----
        tr = Trace(hedger)
        tr.pver()
        hp = hedger.criterion.register_forward_pre_hook(lambda mod, inp: tr.add("CRIT", grad=torch.is_grad_enabled(), hedger_training=hedger.training,
                                                                               model_training=hedger.model.training, batch=int(inp[0].shape[0])))

        def post(mod, inp, out):
            if out.requires_grad:
                out.register_hook(lambda g: tr.add("BWD"))

        hq = hedger.criterion.register_forward_hook(post)
        torch.manual_seed(seed)
        _TRACE.append(tr)
        try:
            kw = {} if opt is None else {"optimizer": opt}
            if verbose:
                kw["tqdm_kwargs"] = {"file": io.StringIO()}
            hist = hedger.fit(derivative, hedge, n_epochs=kc, n_paths=n, n_times=m, init_state=s, verbose=verbose, validation=v, **kw)
        finally:
            _TRACE.pop()
            hp.remove()
            hq.remove()
        check_trace(ctx, tr, kc, n, m, s, v, lazy and ci == 0 and not opt_kind.endswith("inst"), sig, lazy_first_forward=(lazy_inst and ci == 0))
        mon = "steps.count"
        ctx.seen(mon)
        steps = sum(1 for e in tr.events if e["kind"] == "STEP_END")
        ctx.check(mon, steps == kc, "step_count", f"{steps} optimizer steps for n_epochs={kc} (fit call #{ci + 1})", sig=sig)
        # ---- reference loop under the same seed ----
        torch.manual_seed(seed)
        hist_ref, ref_opt = reference(ref, derivative, hedge, kc, n, m, opt_kind, s, v, ref_opt if opt_kind.endswith("inst") else None)
        mon = "reference.parameters"
        ctx.seen(mon)
        pa, pb = list(hedger.parameters()), list(ref.parameters())
        lz = torch.nn.parameter.is_lazy
        # (a lazy model fitted for zero epochs is still uninitialised on both sides)
        same = len(pa) == len(pb) and all((lz(a) and lz(b)) or (not lz(a) and not lz(b) and a.shape == b.shape and bool(((a == b) | (torch.isnan(a) & torch.isnan(b))).all()))
                                          for a, b in zip(pa, pb))
        if any((not lz(a)) and bool(torch.isnan(a).any()) for a in pa) or (isinstance(hist, list) and any(h_ != h_ for h_ in hist)):
            ctx.branch("loss.non_finite")
        if not same:
            worst = max((float((a - b).abs().max()) for a, b in zip(pa, pb) if not lz(a) and not lz(b) and a.shape == b.shape), default=float("nan"))
            ctx.violation(mon, "parameters_differ", f"parameters after fit() call #{ci + 1} differ from the explicit simulate/loss/backward/step loop under the same "
                          f"seed (max |diff| {worst!r}; n_epochs={kc}, optimiser {opt_kind}, model {mk}, stale grads {stale}, verbose={verbose}, validation={v})",
                          sig=sig, max_abs_diff=worst, call=ci + 1)
            break
        ctx.ok(mon, sig=sig, trivial=(kc == 0))
        mon = "reference.history"
        ctx.seen(mon)
        if v:
            okh = isinstance(hist, list) and len(hist) == kc and hist_ref is not None and all(a == b or (a != a and b != b) for a, b in zip(hist, hist_ref))
        else:
            okh = hist is None
        ctx.check(mon, okh, "history", f"fit history {hist} vs reference {hist_ref} (validation={v}, n_epochs={kc}, call #{ci + 1})", sig=sig, trivial=(kc == 0))
    if k_ < 4:
        ctx.sample({"driver": "fit", "n_epochs": k, "n_paths": n, "n_times": m, "validation": v, "optimizer": opt_kind, "model": mk, "init_state": s,
                    "stale_grad": stale, "trace": [e["kind"] for e in tr.events][:40], "history": hist})


DRIVERS = [
    ("fit", 120, 4000, drv_fit),
]
