"""C04 - risk measures obey the convex-risk-measure axioms.

Active relation checks between calls of the real criteria (modules and functional forms) at related
samples; slack = accuracy bound of each value involved (rounding, bisection precision) plus the
rounding of the transformed sample (every measure is 1-Lipschitz in the sup norm).
"""
import math
from fractions import Fraction

import numpy as np
import torch

import pfhedge.nn.functional as F
from pfhedge.nn import EntropicLoss
from pfhedge.nn import EntropicRiskMeasure
from pfhedge.nn import ExpectedShortfall
from pfhedge.nn import IsoelasticLoss
from pfhedge.nn import QuadraticCVaR

from ..gen import F32, F64, pick, sample, t
from ..oracles import risk as R
from .c05 import pick_p

RULE = (
    "tuples (X, Y, c, lambda, k) with N in {1,2,3,5,10,100,1000}, trailing shapes (),(M),(M,K), styles gauss/lognormal/ties/heavy/"
    "const/two-point/sorted, magnitudes 1e-6..1e6, a in [1e-3,100], p incl. k/N and k/N+-1e-12, lam in [1,1000], f32/f64; relations: "
    "monotone, cash-invariant, convex, ES homogeneity and monotonicity in p, entropic monotonicity in a, bounds (-max, -min, -mean; "
    "lowered by 1/(4 lam) for quadratic CVaR), monotone+convex expected-utility losses. distinct = (measure, relation, N-class, "
    "style, dtype, shape); trivial = constant samples"
)
ASSUMPTIONS = [
    "slack = sum of per-value accuracy bounds (entropic 32 eps (max|x| + (log N+1)/a); ES (N+4) eps max|x|; quadratic CVaR "
    "3 lam precision^2 + rounding) + eps*max|transformed sample|",
    "expected-utility losses restricted to |a x| <= 30 (finite values) and positive samples for the isoelastic loss",
]
ANCHORS = ['pfhedge.nn.functional:entropic_risk_measure',
           'pfhedge.nn.functional:expected_shortfall',
           'pfhedge.nn.functional:topp',
           'pfhedge.nn.functional:quadratic_cvar']
DECIDING = ["ERM.monotone", "ERM.cash", "ERM.convex", "ERM.bounds", "ERM.a_monotone", "ES.monotone", "ES.cash", "ES.convex", "ES.homogeneous",
            "ES.p_monotone", "ES.bounds", "QCVaR.monotone", "QCVaR.cash", "QCVaR.convex", "QCVaR.bounds", "EntropicLoss.monotone_convex",
            "IsoelasticLoss.monotone_convex"]
REQUIRED_BRANCHES = ["n=1", "ties", "const", "multi_column", "EntropicLoss.large_exponent", "IsoelasticLoss.small_wealth", "columns_at_different_levels"]


def eps(x):
    return float(torch.finfo(x.dtype).eps)


def mx(x):
    return float(x.abs().max())


def tol_erm(x, a):
    return 32 * eps(x) * (mx(x) + (math.log(x.shape[0]) + 1) / a)


def tol_es(x):
    return (x.shape[0] + 4) * eps(x) * mx(x)


def tol_q(x, lam):
    spread = float((x.amax(0) - x.amin(0)).max()) + 2e-8 + 1 / (2 * lam)
    try:
        prec = 1e-6 * 10 ** int(math.log10(float((x.amax(0) - x.amin(0)).max()) + 2e-8))
    except ValueError:
        prec = 1e-6
    e = eps(x)
    res = 8 * e * (mx(x) + spread)
    return 3 * lam * prec**2 + 3 * lam * res**2 + 4 * res + (x.shape[0] + 72) * e * (mx(x) + 1 / (4 * lam) + lam * spread**2)


def q_regime(x, lam):
    """True if any column is in the regime of the known quadratic-CVaR bracket defect."""
    gap = (x.amax(0, keepdim=True) - x).to(F64).mean(0)
    return bool((gap + 1e-8 < 1 / (2 * lam) * (1 + 1e-9)).any())


def q_mixed_direction(x):
    """Same predicate as C05's qcvar_mixed_direction (dim 0): a column constant at the resolution of its dtype beside ordinary ones."""
    with torch.no_grad():
        inp = x - x.mean(dim=0, keepdim=True)
        lower = torch.amin(-inp, dim=0, keepdim=True) - 1e-8
        upper = torch.amax(-inp, dim=0, keepdim=True) + 1e-8
        dec = torch.relu(-lower - inp).mean(dim=0, keepdim=True) > torch.relu(-upper - inp).mean(dim=0, keepdim=True)
        return bool((~dec).any()) and bool(dec.any()) and bool((lower < upper).all())


def leq(a, b, slack):
    return bool((a.to(F64) <= b.to(F64) + slack).all())


def close(a, b, slack):
    return bool(((a.to(F64) - b.to(F64)).abs() <= slack).all())


def drv_axioms(ctx, k, rng):
    dtype = pick(rng, [F32, F64, F64])
    n = int(pick(rng, [1, 2, 3, 5, 10, 10, 100, 1000 if rng.random() < 0.3 else 37]))
    trail = pick(rng, [(), (), (3,), (2, 3)])
    scale = 1.0 if rng.random() < 0.6 else float(10 ** rng.uniform(-6, 6))
    shape = (n,) + tuple(trail)
    X, style = sample(rng, shape, dtype, scale=scale)
    Y, style2 = sample(rng, shape, dtype, scale=scale)
    D = sample(rng, shape, dtype, scale=scale, style="gauss")[0].abs()
    if trail and rng.random() < 0.25:
        # columns sitting at very different cash levels (the same positions booked against different fixed amounts): each column is its own sample
        lev = t(rng.standard_normal(tuple(trail)) * float(pick(rng, [1e3, 1e5, 1e6])) * scale, dtype)
        X, Y = X + lev, Y + lev
        ctx.branch("columns_at_different_levels")
    c = float(rng.standard_normal() * scale)
    lmb = float(pick(rng, [0.0, 1.0, 0.5, 0.25, float(rng.random())]))
    if n == 1:
        ctx.branch("n=1")
    if style in ("ties", "twopoint"):
        ctx.branch("ties")
    if style == "const":
        ctx.branch("const")
    if trail:
        ctx.branch("multi_column")
    e = eps(X)
    base_sig = ("N1" if n == 1 else ("small" if n <= 10 else "big"), style, str(dtype), len(trail))
    triv = style == "const" and style2 == "const"
    Xc = X + c
    Xm = X + D
    Z = lmb * X + (1 - lmb) * Y
    round_c = 2 * e * (mx(X) + abs(c))
    round_m = 2 * e * mx(Xm)
    round_z = 4 * e * (mx(X) + mx(Y))
    a = float(10 ** rng.uniform(-3, 2)) if rng.random() < 0.6 else float(pick(rng, [1.0, 10.0, 100.0]))
    p, pk = pick_p(rng, n)
    lam = float(pick(rng, [1.0, 2.0, 10.0, 100.0, 1000.0])) if rng.random() < 0.6 else float(10 ** rng.uniform(0, 3))
    via_fn = rng.random() < 0.3

    def run(name, rho, tol, q=False, lower=0.0):
        def chk(rel, cond, msg, **kw):
            mon = f"{name}.{rel}"
            ctx.seen(mon)
            key = rel
            if q and not cond and any(q_regime(s_, lam) for s_ in kw.get("_samples", [])):
                key = "qcvar.bracket_lower_bound_above_root"
            if q and not cond and any(s_.dim() > 1 and q_mixed_direction(s_) for s_ in kw.get("_samples", [])):
                key = "qcvar.constant_column_flips_search_direction"
            kw.pop("_samples", None)
            ctx.check(mon, cond, key, msg, sig=(name, rel) + base_sig, trivial=triv, **kw)

        rX, rY, rXc, rXm, rZ = rho(X), rho(Y), rho(Xc), rho(Xm), rho(Z)
        tX, tY, tXc, tXm, tZ = tol(X), tol(Y), tol(Xc), tol(Xm), tol(Z)
        chk("monotone", leq(rXm, rX, tX + tXm + round_m), f"{name}: rho(X+|D|) > rho(X)", X=X, D=D, rho_X=rX, rho_XD=rXm,
            param=dict(a=a, p=p, lam=lam), _samples=[X, Xm])
        chk("cash", close(rXc, rX - c, tX + tXc + round_c + 2 * e * abs(c)), f"{name}: rho(X+c) != rho(X) - c (c={c})", X=X, c=c,
            rho_X=rX, rho_Xc=rXc, param=dict(a=a, p=p, lam=lam), _samples=[X, Xc])
        chk("convex", leq(rZ, lmb * rX + (1 - lmb) * rY, tX + tY + tZ + round_z + 4 * e * (mx(rX) + mx(rY))),
            f"{name}: rho(l X + (1-l) Y) > l rho(X) + (1-l) rho(Y) (l={lmb})", X=X, Y=Y, l=lmb, rho_X=rX, rho_Y=rY, rho_Z=rZ,
            param=dict(a=a, p=p, lam=lam), _samples=[X, Y, Z])
        mxv, mnv, mean = X.amax(0), X.amin(0), X.to(F64).mean(0)
        okb = leq(-mxv.to(F64) - lower, rX, tX) and leq(rX, -mnv.to(F64) - lower, tX) and leq(-mean - lower, rX, tX + (n + 4) * e * mx(X))
        chk("bounds", okb, f"{name}: bounds -max-{lower} <= rho <= -min-{lower}, rho >= -mean-{lower} violated", X=X, rho_X=rX,
            param=dict(a=a, p=p, lam=lam), _samples=[X])
        return rX

    if via_fn:
        erm = lambda x: F.entropic_risk_measure(x, a)  # noqa: E731
        es = lambda x: F.expected_shortfall(x, p, dim=0)  # noqa: E731
        qc = lambda x: F.quadratic_cvar(x, lam, dim=0)  # noqa: E731
    else:
        erm, es, qc = EntropicRiskMeasure(a), ExpectedShortfall(p), QuadraticCVaR(lam)
    rX = run("ERM", erm, lambda x: tol_erm(x, a))
    # non-decreasing in risk aversion
    a2 = a * float(pick(rng, [1.0001, 1.5, 10.0]))
    r2 = F.entropic_risk_measure(X, a2)
    ctx.seen("ERM.a_monotone")
    ctx.check("ERM.a_monotone", leq(rX, r2, tol_erm(X, a) + tol_erm(X, a2)), "a_monotone", f"entropic risk decreases from a={a} to a={a2}",
              sig=("ERM", "a") + base_sig, trivial=triv, X=X, a1=a, a2=a2, r1=rX, r2=r2)
    rX = run("ES", es, tol_es)
    kk = float(pick(rng, [0.5, 2.0, 3.0, 1e-3, 1e3]))
    rk = es(kk * X)
    ctx.seen("ES.homogeneous")
    ctx.check("ES.homogeneous", close(rk, kk * rX, kk * tol_es(X) * 3 + 4 * e * kk * mx(X)), "homogeneous", f"ES(kX) != k ES(X) (k={kk}, p={p})",
              sig=("ES", "hom") + base_sig, trivial=triv, X=X, k=kk, p=p, r=rX, rk=rk)
    p2, _ = pick_p(rng, n)
    pl_, ph = min(p, p2), max(p, p2)
    if pl_ < ph:
        r_lo, r_hi = F.expected_shortfall(X, pl_, dim=0), F.expected_shortfall(X, ph, dim=0)
        ctx.seen("ES.p_monotone")
        ctx.check("ES.p_monotone", leq(r_hi, r_lo, 2 * tol_es(X)), "p_monotone", f"ES_p increases from p={pl_} to p={ph}",
                  sig=("ES", "p") + base_sig, trivial=triv, X=X, p1=pl_, p2=ph, r1=r_lo, r2=r_hi)
    try:
        run("QCVaR", qc, lambda x: tol_q(x, lam), q=True, lower=1 / (4 * lam))
    except (RuntimeError, ValueError) as ex:
        # the search fails in three ways on a column that is constant at the resolution of its dtype: iteration cap, empty bracket, log10(0)
        if not any(m_ in str(ex) for m_ in ("max_iter", "math domain error", "lower < upper")):
            raise
        worst = min(float(((s_.to(F64).amax(0) - s_.to(F64).amin(0)) / (s_.to(F64).abs().amax(0) + 1e-300)).min()) for s_ in (X, Y, Xc, Xm, Z))
        ctx.seen("QCVaR.total")
        ctx.violation("QCVaR.total", "qcvar.bisect_max_iter_near_constant_sample" if worst <= 1e-5 else "qcvar.bisect_max_iter",
                      f"quadratic CVaR raised {type(ex).__name__}: {ex} (smallest relative column spread among the samples {worst!r}, dtype {dtype})",
                      sig=("QCVaR", "total") + base_sig, X=X.reshape(-1)[:20], lam=lam)
    # expected-utility losses: monotone decreasing and convex in the P&L
    aa = float(pick(rng, [0.5, 1.0, 2.0]))
    # exponents over the whole range the dtype represents (a |x| up to ~600 in float64, ~80 in float32) in a share of the cases
    wide = bool(rng.random() < 0.4)
    lim = (150.0 if dtype == F64 else 20.0) if wide else 10.0
    if wide:
        ctx.branch("EntropicLoss.large_exponent")
    Xs, Ys, Ds = (X / scale * (lim / 3 if wide else 1.0)).clamp(-lim, lim), (Y / scale * (lim / 3 if wide else 1.0)).clamp(-lim, lim), (D / scale).clamp(0, 10)
    L = EntropicLoss(aa)
    lx, ly, lm_, lz = L(Xs), L(Ys), L(Xs + Ds), L(lmb * Xs + (1 - lmb) * Ys)
    rel = (n + 64) * e * (1 + aa * (2 * lim + 1))
    ok = bool((lm_.to(F64) <= lx.to(F64) * (1 + rel)).all()) and bool(
        (lz.to(F64) <= (lmb * lx.to(F64) + (1 - lmb) * ly.to(F64)) * (1 + 2 * rel)).all())
    ctx.seen("EntropicLoss.monotone_convex")
    ctx.check("EntropicLoss.monotone_convex", ok, "monotone_convex", "EntropicLoss not monotone decreasing / convex in the P&L",
              sig=("EL",) + base_sig, trivial=triv, X=Xs, Y=Ys, D=Ds, l=lmb, a=aa, LX=lx, LY=ly, LXD=lm_, LZ=lz)
    ai = float(pick(rng, [1.0, 0.5, 0.1]))
    Li = IsoelasticLoss(ai)
    # wealth of any magnitude the property names (1e-6 .. 1e6): utilities of small positive wealth are where log / power are steep
    wm = float(10 ** rng.uniform(-6, 3)) if rng.random() < 0.5 else 1.0
    if wm < 1e-4:
        ctx.branch("IsoelasticLoss.small_wealth")
    Xp, Yp = ((X / scale).clamp(-10, 10).abs() + 0.1) * wm, ((Y / scale).clamp(-10, 10).abs() + 0.1) * wm
    Dw = Ds * wm
    lx, ly, lm_, lz = Li(Xp), Li(Yp), Li(Xp + Dw), Li(lmb * Xp + (1 - lmb) * Yp)
    sl = (n + 64) * e * (25 + float(torch.stack([v_.abs().max() for v_ in (lx, ly, lm_, lz)]).max()))
    ok = leq(lm_, lx, sl) and leq(lz, lmb * lx.to(F64) + (1 - lmb) * ly.to(F64), 2 * sl)
    ctx.seen("IsoelasticLoss.monotone_convex")
    ctx.check("IsoelasticLoss.monotone_convex", ok, "monotone_convex", "IsoelasticLoss not monotone decreasing / convex in the P&L",
              sig=("IL", ai) + base_sig, trivial=triv, X=Xp, Y=Yp, D=Dw, l=lmb, a=ai, LX=lx, LY=ly, LXD=lm_, LZ=lz)
    if k < 5:
        ctx.sample({"driver": "axioms", "shape": list(shape), "style": [style, style2], "scale": scale, "a": a, "p": p, "lam": lam,
                    "c": c, "lambda": lmb, "X_head": X.reshape(-1)[:5]})


def drv_witness(ctx, k, rng):
    """Fixed witness of the known finding (quadratic CVaR upper bound -min - 1/(4 lam) violated on a constant sample)."""
    X = torch.full((5,), 1.25, dtype=F64)
    lam = 2.0
    r = QuadraticCVaR(lam)(X)
    mon = "QCVaR.bounds"
    ctx.seen(mon)
    ok = bool(r <= -1.25 - 1 / (4 * lam) + tol_q(X, lam))
    ctx.check(mon, ok, "qcvar.bracket_lower_bound_above_root" if q_regime(X, lam) else "bounds",
              f"QuadraticCVaR(2)(const 1.25) = {float(r)!r} > -min - 1/(4 lam) = -1.375", sig=("witness",), X=X, lam=lam, rho=r)
    X2 = torch.tensor([[-0.34759521484375, 3060119.5], [-0.3045158386230469, 3060119.5], [-0.13638892769813538, 3060119.5]], dtype=F32)
    lam2 = 303.36865483144476
    r2 = QuadraticCVaR(lam2)(X2)
    ctx.seen(mon)
    ctx.check(mon, bool(r2[0] <= 0.34759521484375 - 1 / (4 * lam2) + 1e-4), "qcvar.constant_column_flips_search_direction" if q_mixed_direction(X2) else "bounds",
              f"QuadraticCVaR({lam2:.1f}) of a column with worst outcome -0.3476 is {float(r2[0])!r} (> -min - 1/(4 lam)) when a column constant at float32 "
              "resolution sits beside it", sig=("witness2",), X=X2, lam=lam2, rho=r2)
    try:
        QuadraticCVaR(4.815820373175851)(torch.full((10,), 4060.885009765625, dtype=F32))
    except RuntimeError as ex:
        if "max_iter" not in str(ex):
            raise
        ctx.seen("QCVaR.total")
        ctx.violation("QCVaR.total", "qcvar.bisect_max_iter_near_constant_sample", f"quadratic CVaR raised {ex} on float32 full((10,), 4060.885)")


DRIVERS = [
    ("witness", 1, 1, drv_witness),
    ("axioms", 300, 20000, drv_axioms),
]
