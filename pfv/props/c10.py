"""C10 - simulated paths follow the law of the model they are named after.

(i) Pathwise, exact: with a recording engine, Brownian / geometric Brownian paths equal the exact SDE
solution step by step, and the jump models with zero intensity reduce to it.  (ii) Distributional:
streaming large-sample moments at several time indices are compared with the closed-form moments of
the model by two-stage z-tests (stage 2 re-draws an independent, 8x larger sample; a violation needs
both stages to fail with the same sign).
"""
import math

import numpy as np
import torch

import pfhedge.stochastic as ST
from pfhedge.instruments import BrownianStock
from pfhedge.instruments import CIRRate
from pfhedge.instruments import HestonStock
from pfhedge.instruments import KouJumpStock
from pfhedge.instruments import LocalVolatilityStock
from pfhedge.instruments import MertonJumpStock
from pfhedge.instruments import RoughBergomiStock
from pfhedge.instruments import VasicekRate
from pfhedge.stochastic import randn_antithetic
from pfhedge.stochastic import randn_sobol_boxmuller
from pfhedge.stochastic.engine import RandnSobolBoxMuller

from ..gen import F32, F64, pick

RULE = (
    "pathwise: recording engine x {generate_brownian, generate_geometric_brownian, Merton / Kou with intensity 0} x (n_paths, n_steps, sigma, mu, "
    "dt, S0, dtype); distributional: parameter configurations away from the defaults for GBM, Brownian, Merton, Kou (p_up != 0.5), CIR (psi at "
    "the initial state from 0.01 to 10, both QE branches and the band around the switch), Heston, Vasicek (start above / below / at theta and at 0), "
    "rough Bergomi (1-year and other horizons), local volatility, through the generators and through the instruments' simulate(); statistics = "
    "means and variances (of the value or its logarithm) at 3 time indices. distinct = (model, configuration, statistic)"
)
ASSUMPTIONS = [
    "two-stage decision: |z| <= 4.5 passes; otherwise an independent 8x larger sample is drawn and a violation is reported only if |z| > 4.5 again with "
    "the same sign (joint false-alarm probability ~ 2e-11 per statistic)",
    "resolution: biases below ~4.5 standard errors of the large sample (about 0.3% of the tested moment in quick, 0.1% in thorough) are out of reach",
    "Heston spot mean: the QE log-spot update without martingale correction carries a discretisation bias; budget 0.02*dt*|rho|*sigma*t-scaled "
    "(see BIAS in the code, calibrated on the unchanged scheme); rough Bergomi log-variance moments: hybrid-scheme budget",
]
ANCHORS = ['pfhedge.stochastic.brownian:generate_brownian',
           'pfhedge.stochastic.brownian:generate_geometric_brownian',
           'pfhedge.stochastic.cir:generate_cir',
           'pfhedge.stochastic.heston:generate_heston',
           'pfhedge.stochastic.vasicek:generate_vasicek',
           'pfhedge.stochastic.merton_jump:generate_merton_jump',
           'pfhedge.stochastic.kou_jump:generate_kou_jump',
           'pfhedge.stochastic.rough_bergomi:generate_rough_bergomi',
           'pfhedge.stochastic.local_volatility:generate_local_volatility_process',
           'pfhedge.stochastic.random:randn_antithetic',
           'pfhedge.stochastic.engine:RandnSobolBoxMuller.__call__',
           'pfhedge.nn.functional:box_muller']
DECIDING = ["pathwise.brownian", "pathwise.geometric", "pathwise.jump_zero_intensity", "law.moments", "random.antithetic", "random.sobol"]
REQUIRED_BRANCHES = ["history.warmup_with_other_arguments", "cir.psi<=1.5", "cir.psi>1.5", "cir.psi_near_switch", "kou.p_up!=0.5", "via.instrument", "via.generator"]

Z = 4.5


class Recorder:
    def __init__(self):
        self.calls = []

    def __call__(self, *size, dtype=None, device=None):
        z = torch.randn(*size, dtype=dtype, device=device)
        self.calls.append(z.clone())
        return z


def drv_pathwise(ctx, k, rng):
    dtype = pick(rng, [F64, F64, F32])
    n, T = int(pick(rng, [1, 3, 50])), int(pick(rng, [1, 2, 5, 40]))
    sigma, mu = float(rng.uniform(0.05, 1.0)), float(rng.uniform(-0.3, 0.3))
    dt = float(pick(rng, [1 / 250, 1 / 52, 1 / 12, 0.1]))
    s0 = float(pick(rng, [1.0, 0.3, 2.5, 100.0]))
    rel = 1e-12 if dtype == F64 else 2e-5
    tgrid = torch.arange(T, dtype=F64) * dt
    s0 = float(torch.as_tensor(s0).to(dtype))  # cast_state converts python scalars with torch.as_tensor (float32) before casting to the dtype

    def bm(z):
        z = z.to(F64).clone()
        z[:, 0] = 0
        return math.sqrt(dt) * z.cumsum(1)

    which = pick(rng, ["brownian", "geometric", "merton0", "kou0"])
    rec = Recorder()
    if which == "brownian":
        out = ST.generate_brownian(n, T, init_state=(s0,), sigma=sigma, mu=mu, dt=dt, dtype=dtype, engine=rec)
        want = [s0 + mu * tgrid + sigma * bm(z) for z in rec.calls if z.shape == (n, T)]
        mon = "pathwise.brownian"
        scale = abs(s0) + abs(mu) * float(tgrid[-1]) + sigma * math.sqrt(float(tgrid[-1]) + dt) * 5
    else:
        mon = "pathwise.geometric" if which == "geometric" else "pathwise.jump_zero_intensity"
        if which == "geometric":
            out = ST.generate_geometric_brownian(n, T, init_state=(s0,), sigma=sigma, mu=mu, dt=dt, dtype=dtype, engine=rec)
        elif which == "merton0":
            if rng.random() < 0.5:
                out = ST.generate_merton_jump(n, T, init_state=(s0,), sigma=sigma, mu=mu, jump_per_year=0.0, jump_mean=0.1, jump_std=0.2, dt=dt, dtype=dtype, engine=rec)
            else:  # the instrument must hand its engine, parameters, dtype and initial state to the generator
                inst = MertonJumpStock(mu=mu, sigma=sigma, jump_per_year=0.0, jump_mean=0.1, jump_std=0.2, dt=dt, dtype=dtype, engine=rec)
                inst.simulate(n_paths=n, time_horizon=(T - 1) * dt, init_state=(s0,))
                out = inst.spot
                T = out.shape[1]
                tgrid = torch.arange(T, dtype=F64) * dt
        else:
            if rng.random() < 0.5:
                out = ST.generate_kou_jump(n, T, init_state=(s0,), sigma=sigma, mu=mu, jump_per_year=0.0, dt=dt, dtype=dtype, engine=rec)
            else:
                inst = KouJumpStock(sigma=sigma, mu=mu, jump_per_year=0.0, dt=dt, dtype=dtype, engine=rec)
                inst.simulate(n_paths=n, time_horizon=(T - 1) * dt, init_state=(s0,))
                out = inst.spot
                T = out.shape[1]
                tgrid = torch.arange(T, dtype=F64) * dt
        want = [s0 * torch.exp((mu - sigma**2 / 2) * tgrid + sigma * bm(z)) for z in rec.calls if z.shape == (n, T)]
        scale = None
    ctx.seen(mon)
    ok = False
    for w in want:
        tol = rel * (w.abs() if scale is None else scale) * (1 + 4 * T * (dtype == F32))
        if out.shape == w.shape and bool(((out.to(F64) - w).abs() <= tol + 1e-300).all()):
            ok = True
    ctx.check(mon, ok, "pathwise", f"{which}: paths differ from the exact solution built from the engine's normals (n={n}, T={T}, sigma={sigma}, mu={mu}, dt={dt}, "
              f"S0={s0}, {dtype})", sig=(which, str(dtype), "T=%s" % (T if T <= 2 else "many"), n == 1), out=out[:2, :5], expected=(want[-1][:2, :5] if want else None),
              engine_calls=[list(z.shape) for z in rec.calls])
    if k < 3:
        ctx.sample({"driver": "pathwise", "which": which, "n": n, "T": T, "sigma": sigma, "mu": mu, "dt": dt, "S0": s0, "out_row0": out[0, :5]})


# ---- streaming moments -------------------------------------------------------------------------------------
class Mom:
    def __init__(self, m):
        self.n = 0
        self.s = np.zeros((4, m))

    def add(self, x):  # x: (N, m) float64 tensor
        a = x.numpy()
        self.n += a.shape[0]
        for p in range(4):
            self.s[p] += (a ** (p + 1)).sum(0)

    def mean(self):
        return self.s[0] / self.n

    def var(self):
        m = self.mean()
        return self.s[1] / self.n - m * m

    def central4(self):
        m = self.mean()
        m2, m3, m4 = self.s[1] / self.n, self.s[2] / self.n, self.s[3] / self.n
        return m4 - 4 * m * m3 + 6 * m * m * m2 - 3 * m**4

    def z_mean(self, want, budget=0.0):
        se = np.sqrt(np.maximum(self.var(), 1e-300) / self.n)
        d = self.mean() - want
        d = np.sign(d) * np.maximum(np.abs(d) - budget, 0.0)
        return d / se

    def z_var(self, want, budget=0.0):
        v = self.var()
        se = np.sqrt(np.maximum(self.central4() - v * v, 1e-300) / self.n)
        d = v - want
        d = np.sign(d) * np.maximum(np.abs(d) - budget, 0.0)
        return d / se


def run_stats(draw, names, idx, n_total, batch):
    moms = {nm: Mom(len(idx)) for nm in names}
    done = 0
    while done < n_total:
        b = min(batch, n_total - done)
        series = draw(b)
        for nm in names:
            moms[nm].add(series[nm][:, idx].to(F64))
        done += b
    return moms


class _Reseeded:
    """Standard normals from a private generator re-seeded on every call; the seed moves on once per simulated batch (two engine calls per Merton batch)."""

    def __init__(self):
        self.calls = 0

    def __call__(self, *size, dtype=None, device=None):
        g = torch.Generator().manual_seed(1234 + self.calls // 2)
        self.calls += 1
        return torch.randn(*size, generator=g, dtype=dtype, device=device)


# ---- model configurations ---------------------------------------------------------------------------------------
def cfg_list():
    C = []
    for sigma, mu, dt, T, s0 in [(0.3, 0.1, 1 / 52, 27, 2.0), (0.6, -0.2, 1 / 250, 41, 0.7), (0.15, 0.0, 0.1, 11, 1.0)]:
        C.append(("gbm", dict(sigma=sigma, mu=mu, dt=dt, T=T, s0=s0)))
    C.append(("brownian", dict(sigma=0.4, mu=0.25, dt=1 / 12, T=13, s0=-1.0)))
    for lam, m, s, sigma, mu, dt, T in [(30.0, -0.05, 0.1, 0.25, 0.05, 1 / 52, 27), (5.0, 0.08, 0.03, 0.1, 0.0, 1 / 12, 13), (100.0, 0.0, 0.02, 0.2, -0.1, 1 / 250, 31)]:
        C.append(("merton", dict(lam=lam, jm=m, js=s, sigma=sigma, mu=mu, dt=dt, T=T, s0=1.5)))
    for lam, up, dn, p, sigma, mu, dt, T in [(20.0, 0.05, 0.1, 0.3, 0.2, 0.0, 1 / 52, 27), (8.0, 0.1, 0.04, 0.7, 0.3, 0.1, 1 / 12, 13), (40.0, 0.02, 0.05, 0.5, 0.15, 0.0, 1 / 250, 31),
                                           (10.0, 0.03, 0.08, 0.0, 0.2, 0.05, 1 / 52, 14)]:
        C.append(("kou", dict(lam=lam, up=up, dn=dn, p=p, sigma=sigma, mu=mu, dt=dt, T=T, s0=0.8)))
    # CIR: psi at the initial state spans both QE branches and the band around the switch (psi = 1.5)
    for kappa, theta, sigma, v0, dt, T in [(1.0, 0.04, 0.2, 0.04, 1 / 250, 21), (2.0, 0.09, 0.3, 0.02, 1 / 52, 27), (1.0, 0.04, 0.40, 0.02, 0.25, 9), (1.0, 0.04, 0.44, 0.02, 0.25, 9),
                                           (1.0, 0.04, 0.47, 0.02, 0.25, 9), (1.0, 0.04, 0.50, 0.02, 0.25, 9), (1.0, 0.04, 0.6, 0.02, 0.25, 9), (0.5, 0.02, 1.0, 0.01, 1 / 12, 13), (3.0, 0.05, 0.8, 0.1, 1 / 52, 27), (0.3, 0.04, 1.5, 0.04, 0.1, 11)]:
        C.append(("cir", dict(kappa=kappa, theta=theta, sigma=sigma, v0=v0, dt=dt, T=T)))
    # parameters and initial state handed over as tensors that the caller keeps and reuses for every batch
    C.append(("vasicek", dict(kappa=2.0, theta=0.03, sigma=0.05, r0=0.1, dt=0.02, T=26, tensor_args=True)))
    C.append(("cir", dict(kappa=1.0, theta=0.04, sigma=0.3, v0=0.09, dt=1 / 52, T=27, tensor_args=True)))
    C.append(("cir", dict(kappa=1.5, theta=0.05, sigma=0.3, v0=0.05, dt=1 / 52, T=27, default_init=True)))
    C.append(("vasicek", dict(kappa=1.5, theta=0.05, sigma=0.03, r0=0.05, dt=1 / 52, T=27, default_init=True)))
    C.append(("heston", dict(kappa=1.5, theta=0.05, sigma=0.3, rho=-0.6, v0=0.05, s0=1.0, dt=1 / 250, T=21, default_init=True)))
    for kappa, theta, sigma, r0, dt, T in [(2.0, 0.03, 0.05, 0.1, 0.02, 51), (0.5, 0.04, 0.02, 0.0, 1 / 12, 25), (1.0, -0.01, 0.04, -0.01, 1 / 52, 27), (3.0, 0.05, 0.1, 0.01, 1 / 250, 41)]:
        C.append(("vasicek", dict(kappa=kappa, theta=theta, sigma=sigma, r0=r0, dt=dt, T=T)))
    for kappa, theta, sigma, rho, v0, s0, dt, T in [(1.0, 0.04, 0.2, -0.7, 0.04, 1.0, 1 / 250, 21), (2.0, 0.09, 0.5, 0.5, 0.03, 2.0, 1 / 52, 27), (1.5, 0.04, 0.8, -0.9, 0.06, 0.5, 1 / 250, 31)]:
        C.append(("heston", dict(kappa=kappa, theta=theta, sigma=sigma, rho=rho, v0=v0, s0=s0, dt=dt, T=T)))
    for alpha, rho, eta, xi, dt, T in [(-0.4, -0.9, 1.9, 0.04, 1 / 50, 51), (-0.3, -0.5, 1.0, 0.09, 1 / 25, 26), (-0.4, -0.9, 1.9, 0.04, 1 / 250, 21), (-0.2, 0.0, 0.8, 0.05, 1 / 25, 51)]:
        C.append(("rbergomi", dict(alpha=alpha, rho=rho, eta=eta, xi=xi, dt=dt, T=T)))
    # incl. a regime where the Euler step 1 + sigma sqrt(dt) z goes negative with non-negligible probability (the martingale property still holds)
    for kind, dt, T, s0 in [("const", 1 / 52, 27, 1.3), ("smile", 1 / 250, 31, 1.0), ("time", 1 / 12, 13, 0.6), ("big", 1 / 12, 7, 1.0)]:
        C.append(("localvol", dict(kind=kind, dt=dt, T=T, s0=s0)))
    # jumps of a fixed size (jump_std = 0, jump_mean != 0) are still jumps: the log-mean and log-variance carry lam t m and lam t m^2
    C.append(("merton", dict(lam=20.0, jm=-0.1, js=0.0, sigma=0.2, mu=0.05, dt=1 / 52, T=27, s0=1.5)))
    C.append(("merton", dict(lam=8.0, jm=0.15, js=0.0, sigma=0.1, mu=0.0, dt=1 / 12, T=13, s0=1.0)))
    C.append(("merton", dict(lam=68.2, jm=0.0, js=0.02, sigma=0.2, mu=0.0, dt=1 / 250, T=51, s0=1.0, engine="reseeded")))
    C.append(("merton", dict(lam=30.0, jm=-0.05, js=0.1, sigma=0.25, mu=0.05, dt=1 / 52, T=27, s0=1.5, engine="reseeded")))
    return C


CONFIGS = cfg_list()


def lv_fn(kind):
    if kind == "const":
        return lambda t, s: torch.full_like(s, 0.3)
    if kind == "big":
        return lambda t, s: torch.full_like(s, 2.0)
    if kind == "smile":
        return lambda t, s: 0.2 + 0.3 * (s - 1.0).abs().clamp(max=1.0)
    return lambda t, s: 0.15 + 0.2 * t + 0.0 * s


def build(model, c, via, dtype):
    """Returns (draw(batch) -> dict of series, list of checks). A check is (series, transform, stat, expected fn(t), budget fn(t), label)."""
    T, dt = c["T"], c["dt"]
    checks = []
    if model == "gbm":
        if via == "generator":
            draw = lambda b: {"x": ST.generate_geometric_brownian(b, T, init_state=(c["s0"],), sigma=c["sigma"], mu=c["mu"], dt=dt, dtype=dtype)}  # noqa: E731
        else:
            inst = BrownianStock(sigma=c["sigma"], mu=c["mu"], dt=dt, dtype=dtype)
            draw = lambda b: (inst.simulate(b, (T - 1) * dt, init_state=(c["s0"],)), {"x": inst.spot})[1]  # noqa: E731
        checks += [("x", "id", "mean", lambda t: c["s0"] * np.exp(c["mu"] * t), None, "E[S_t] = S0 exp(mu t)"),
                   ("x", "log", "mean", lambda t: np.log(c["s0"]) + (c["mu"] - c["sigma"] ** 2 / 2) * t, None, "E[log S_t]"),
                   ("x", "log", "var", lambda t: c["sigma"] ** 2 * t, None, "Var[log S_t] = sigma^2 t")]
    elif model == "brownian":
        draw = lambda b: {"x": ST.generate_brownian(b, T, init_state=(c["s0"],), sigma=c["sigma"], mu=c["mu"], dt=dt, dtype=dtype)}  # noqa: E731
        checks += [("x", "id", "mean", lambda t: c["s0"] + c["mu"] * t, None, "E[X_t] = x0 + mu t"), ("x", "id", "var", lambda t: c["sigma"] ** 2 * t, None, "Var[X_t] = sigma^2 t")]
    elif model == "merton":
        lam, m, s = c["lam"], c["jm"], c["js"]
        ekw = {}
        if c.get("engine") == "reseeded":
            # a caller-supplied engine that restarts its stream on every call (common random numbers across bumped runs, as the library's own
            # Sobol engine does): each call returns standard normals; batches differ through the seed
            ekw = {"engine": _Reseeded()}
        if via == "generator":
            draw = lambda b: {"x": ST.generate_merton_jump(b, T, init_state=(c["s0"],), mu=c["mu"], sigma=c["sigma"], jump_per_year=lam, jump_mean=m, jump_std=s, dt=dt, dtype=dtype, **ekw)}  # noqa: E731
        else:
            inst = MertonJumpStock(mu=c["mu"], sigma=c["sigma"], jump_per_year=lam, jump_mean=m, jump_std=s, dt=dt, dtype=dtype, **ekw)
            draw = lambda b: (inst.simulate(b, (T - 1) * dt, init_state=(c["s0"],)), {"x": inst.spot})[1]  # noqa: E731
        comp = lam * (math.exp(m + s * s / 2) - 1)
        checks += [("x", "id", "mean", lambda t: c["s0"] * np.exp(c["mu"] * t), None, "E[S_t] = S0 exp(mu t)"),
                   ("x", "log", "mean", lambda t: np.log(c["s0"]) + (c["mu"] - c["sigma"] ** 2 / 2 - comp) * t + lam * t * m, None, "E[log S_t] (Merton)"),
                   ("x", "log", "var", lambda t: c["sigma"] ** 2 * t + lam * t * (m * m + s * s), None, "Var[log S_t] = sigma^2 t + lam t (m^2+s^2)")]
    elif model == "kou":
        lam, u, d, p = c["lam"], c["up"], c["dn"], c["p"]
        if via == "generator":
            draw = lambda b: {"x": ST.generate_kou_jump(b, T, init_state=(c["s0"],), sigma=c["sigma"], mu=c["mu"], jump_per_year=lam, jump_mean_up=u, jump_mean_down=d,  # noqa: E731
                                                        jump_up_prob=p, dt=dt, dtype=dtype)}
        else:
            inst = KouJumpStock(sigma=c["sigma"], mu=c["mu"], jump_per_year=lam, jump_mean_up=u, jump_mean_down=d, jump_up_prob=p, dt=dt, dtype=dtype)
            draw = lambda b: (inst.simulate(b, (T - 1) * dt, init_state=(c["s0"],)), {"x": inst.spot})[1]  # noqa: E731
        kap = p / (1 - u) + (1 - p) / (1 + d) - 1
        checks += [("x", "id", "mean", lambda t: c["s0"] * np.exp(c["mu"] * t), None, "E[S_t] = S0 exp(mu t)"),
                   ("x", "log", "mean", lambda t: np.log(c["s0"]) + (c["mu"] - c["sigma"] ** 2 / 2 - lam * kap) * t + lam * t * (p * u - (1 - p) * d), None, "E[log S_t] (Kou)"),
                   ("x", "log", "var", lambda t: c["sigma"] ** 2 * t + lam * t * (2 * p * u * u + 2 * (1 - p) * d * d), None, "Var[log S_t] (Kou)")]
    elif model in ("cir", "vasicek"):
        ka, th, sg = c["kappa"], c["theta"], c["sigma"]
        x0 = c["v0"] if model == "cir" else c["r0"]
        gen = ST.generate_cir if model == "cir" else ST.generate_vasicek
        ini = None if c.get("default_init") else (x0,)  # default start: the documented initial state theta
        th_arg = th
        if c.get("tensor_args"):
            tdt = dtype or torch.get_default_dtype()
            ini = (torch.tensor(x0, dtype=tdt),)
            th_arg = torch.tensor(th, dtype=tdt)
        if via == "generator":
            draw = lambda b: {"x": gen(b, T, init_state=ini, kappa=ka, theta=th_arg, sigma=sg, dt=dt, dtype=dtype)}  # noqa: E731
        else:
            inst = (CIRRate if model == "cir" else VasicekRate)(kappa=ka, theta=th, sigma=sg, dt=dt, dtype=dtype)
            draw = lambda b: (inst.simulate(b, (T - 1) * dt, init_state=ini), {"x": inst.spot})[1]  # noqa: E731
        mean = lambda t: th + (x0 - th) * np.exp(-ka * t)  # noqa: E731
        if model == "cir":
            var = lambda t: x0 * sg**2 / ka * (np.exp(-ka * t) - np.exp(-2 * ka * t)) + th * sg**2 / (2 * ka) * (1 - np.exp(-ka * t)) ** 2  # noqa: E731
        else:
            var = lambda t: sg**2 * (1 - np.exp(-2 * ka * t)) / (2 * ka)  # noqa: E731
        checks += [("x", "id", "mean", mean, None, f"E[X_t] = theta + (x0-theta) exp(-kappa t) ({model})"), ("x", "id", "var", var, None, f"Var[X_t] closed form ({model})")]
    elif model == "heston":
        ka, th, sg, rho, v0, s0 = c["kappa"], c["theta"], c["sigma"], c["rho"], c["v0"], c["s0"]
        hini = None if c.get("default_init") else (s0, v0)
        if via == "generator":
            def draw(b):
                o = ST.generate_heston(b, T, init_state=hini, kappa=ka, theta=th, sigma=sg, rho=rho, dt=dt, dtype=dtype)
                return {"x": o.spot, "v": o.variance}
        else:
            inst = HestonStock(kappa=ka, theta=th, sigma=sg, rho=rho, dt=dt, dtype=dtype)
            draw = lambda b: (inst.simulate(b, (T - 1) * dt, init_state=hini), {"x": inst.spot, "v": inst.variance})[1]  # noqa: E731
        checks += [("v", "id", "mean", lambda t: th + (v0 - th) * np.exp(-ka * t), None, "E[V_t] (Heston variance)"),
                   ("v", "id", "var", lambda t: v0 * sg**2 / ka * (np.exp(-ka * t) - np.exp(-2 * ka * t)) + th * sg**2 / (2 * ka) * (1 - np.exp(-ka * t)) ** 2, None,
                    "Var[V_t] (Heston variance)"),
                   ("x", "id", "mean", lambda t: s0 + 0 * t, lambda t: BIAS["heston_spot"] * s0 * abs(rho) * sg * t, "E[S_t] = S0 (Heston spot martingale)")]
    elif model == "rbergomi":
        al, rho, eta, xi = c["alpha"], c["rho"], c["eta"], c["xi"]
        if via == "generator":
            def draw(b):
                o = ST.generate_rough_bergomi(b, T, alpha=al, rho=rho, eta=eta, xi=xi, dt=dt, dtype=dtype)
                return {"x": o.spot, "v": o.variance}
        else:
            inst = RoughBergomiStock(alpha=al, rho=rho, eta=eta, xi=xi, dt=dt, dtype=dtype)
            draw = lambda b: (inst.simulate(b, (T - 1) * dt), {"x": inst.spot, "v": inst.variance})[1]  # noqa: E731
        checks += [("v", "log", "var", lambda t: eta**2 * t ** (2 * al + 1), lambda t: BIAS["rbergomi_logvar"] * eta**2 * t ** (2 * al + 1), "Var[log v_t] = eta^2 t^(2 alpha+1)"),
                   ("v", "log", "mean", lambda t: np.log(xi) - 0.5 * eta**2 * t ** (2 * al + 1), lambda t: 0.0 * t, "E[log v_t] = log xi - eta^2 t^(2 alpha+1)/2")]
    else:
        fn = lv_fn(c["kind"])
        if via == "generator":
            def draw(b):
                o = ST.generate_local_volatility_process(b, T, fn, init_state=(c["s0"],), dt=dt, dtype=dtype)
                return {"x": o.spot}
        else:
            inst = LocalVolatilityStock(fn, dt=dt, dtype=dtype)
            draw = lambda b: (inst.simulate(b, (T - 1) * dt, init_state=(c["s0"],)), {"x": inst.spot})[1]  # noqa: E731
        checks += [("x", "id", "mean", lambda t: c["s0"] + 0 * t, None, "E[S_t] = S0 (local volatility martingale)")]
    return draw, checks


BIAS = {"heston_spot": 0.0, "rbergomi_logvar": 0.0}


def psi0(c):
    e = math.exp(-c["kappa"] * c["dt"])
    m = c["theta"] + (c["v0"] - c["theta"]) * e
    s2 = c["v0"] * c["sigma"] ** 2 * e * (1 - e) / c["kappa"] + c["theta"] * c["sigma"] ** 2 * (1 - e) ** 2 / (2 * c["kappa"])
    return s2 / (m * m)


def drv_law(ctx, k, rng):
    model, c = CONFIGS[k % len(CONFIGS)]
    via = "generator" if (k + k // len(CONFIGS)) % 2 == 0 else "instrument"
    ctx.branch("via." + via)
    dtype = F64 if rng.random() < 0.8 else None
    T, dt = c["T"], c["dt"]
    idx = sorted({1, (T - 1) // 2, T - 1} - {0}) or [T - 1]
    tt = np.array(idx) * dt
    n1 = 400000 if ctx.thorough else 120000
    if model == "kou" or model == "rbergomi":
        n1 = n1 // 2
    batch = 40000 if model in ("kou", "rbergomi") else 100000
    if model == "cir":
        p = psi0(c)
        ctx.branch("cir.psi<=1.5" if p <= 1.5 else "cir.psi>1.5")
        if 1.0 < p < 2.0:
            ctx.branch("cir.psi_near_switch")
    if model == "kou" and c["p"] != 0.5:
        ctx.branch("kou.p_up!=0.5")
    draw, checks = build(model, c, via, dtype)
    names = sorted({ch[0] + ":" + ch[1] for ch in checks})

    def draw2(b):
        s = draw(b)
        out = {}
        for nm in names:
            base, tr = nm.split(":")
            x = s[base].to(F64)
            out[nm] = x.log() if tr == "log" else x
        return out

    # call history must not matter: the same generator is first called with perturbed arguments (same shape) in this process, so that
    # anything cached across calls under an incomplete key (e.g. without dt) would be stale for the judged configuration
    for key, fac in (("dt", 2.0), ("dt", 0.5), ("sigma", 1.5), ("kappa", 2.0), ("theta", 1.5), ("eta", 0.5), ("xi", 2.0), ("lam", 0.5)):
        if key in c and isinstance(c[key], float) and c[key] > 0 and not c.get("default_init") and not c.get("tensor_args"):
            c2 = dict(c)
            c2[key] = c[key] * fac
            try:
                build(model, c2, via, dtype)[0](4)
                ctx.branch("history.warmup_with_other_arguments")
            except Exception:
                pass
    moms = run_stats(draw2, names, idx, n1, batch)
    mon = "law.moments"
    horizon = (T - 1) * dt
    for base, tr, stat, expected, budget, label in checks:
        nm = base + ":" + tr
        want = expected(tt)
        bud = budget(tt) if budget is not None else np.zeros_like(tt)
        z1 = moms[nm].z_mean(want, bud) if stat == "mean" else moms[nm].z_var(want, bud)
        ctx.seen(mon)
        sig = (model, via, str(dtype), label, repr(sorted((kk, round(vv, 6) if isinstance(vv, float) else vv) for kk, vv in c.items())))
        if bool((np.abs(z1) <= Z).all()):
            ctx.ok(mon, sig=sig, n=len(idx))
            continue
        # stage 2: independent stream, 8x the sample
        ctx.branch("stage2")
        torch.manual_seed(int(rng.integers(1 << 30)))
        m2 = run_stats(draw2, [nm], idx, 8 * n1, batch)[nm]
        z2 = m2.z_mean(want, bud) if stat == "mean" else m2.z_var(want, bud)
        bad = (np.abs(z1) > Z) & (np.abs(z2) > Z) & (np.sign(z1) == np.sign(z2))
        if not bool(bad.any()):
            ctx.ok(mon, sig=sig, n=len(idx))
            ctx.note("stage1_alarm_not_confirmed")
            continue
        j = int(np.argmax(bad))
        obs = (m2.mean() if stat == "mean" else m2.var())[j]
        key = "law." + model + "." + stat
        if model == "rbergomi" and abs(horizon - 1.0) > 0.03:
            key = "rbergomi.kernel_horizon_normalisation"
        ctx.violation(mon, key, f"{model} ({via}): {label}: observed {obs!r} at t={tt[j]!r} (step {idx[j]}), model says {want[j]!r}; z = {z1[j]:.1f} then {z2[j]:.1f} "
                      f"on {n1} and {8 * n1} paths; parameters {c}", sig=sig, config=c, statistic=label, t=float(tt[j]), observed=float(obs), expected=float(want[j]),
                      z1=float(z1[j]), z2=float(z2[j]), via=via)
    # Heston: returns and variance moves are correlated with the sign and size of rho
    if model == "heston":
        s = draw(60000)
        dls = s["x"].to(F64).log().diff(dim=1).reshape(-1)
        dv = s["v"].to(F64).diff(dim=1).reshape(-1)
        corr = float(torch.corrcoef(torch.stack([dls, dv]))[0, 1])
        ctx.seen("law.heston_correlation")
        ctx.check("law.heston_correlation", (corr * c["rho"] > 0) and abs(corr - c["rho"]) <= 0.15, "law.heston.correlation",
                  f"corr(d log S, d V) = {corr:.3f} for rho = {c['rho']}", sig=("heston", via, c["rho"]), config=c, corr=corr)
    if k < 6:
        ctx.sample({"driver": "law", "model": model, "via": via, "config": c, "paths_stage1": n1, "time_indices": idx,
                    "stats": {nm: {"mean": moms[nm].mean().tolist(), "var": moms[nm].var().tolist()} for nm in names}})


def random_cfg(rng):
    """A random configuration in moderate ranges (so that the sample variance is a well-behaved statistic: sigma sqrt(T) <= 0.6)."""
    model = pick(rng, ["gbm", "brownian", "merton", "kou", "cir", "vasicek", "heston", "localvol"])
    dt = float(pick(rng, [1 / 250, 1 / 52, 1 / 12, 0.05]))
    T = int(rng.integers(3, 30))
    hor = (T - 1) * dt
    smax = min(0.8, 0.6 / math.sqrt(hor))
    sigma = float(rng.uniform(0.05, smax))
    mu = float(rng.uniform(-0.3, 0.3))
    s0 = float(np.exp(rng.uniform(-1, 1)))
    if model == "gbm":
        return model, dict(sigma=sigma, mu=mu, dt=dt, T=T, s0=s0)
    if model == "brownian":
        return model, dict(sigma=sigma, mu=mu, dt=dt, T=T, s0=float(rng.uniform(-2, 2)))
    if model == "merton":
        js = float(rng.uniform(0.01, 0.1))
        lam = float(rng.uniform(0, min(100.0, 0.2 / (js * js * hor))))
        return model, dict(lam=lam, jm=float(rng.uniform(-0.08, 0.08)), js=js, sigma=sigma, mu=mu, dt=dt, T=T, s0=s0)
    if model == "kou":
        up, dn = float(rng.uniform(0.01, 0.08)), float(rng.uniform(0.01, 0.1))
        lam = float(rng.uniform(0, min(60.0, 0.1 / ((up * up + dn * dn) * hor))))
        return model, dict(lam=lam, up=up, dn=dn, p=float(pick(rng, [0.0, 0.2, 0.5, 0.8, 1.0, float(rng.random())])), sigma=sigma, mu=mu, dt=dt, T=T, s0=s0)
    kappa, theta = float(rng.uniform(0.2, 5.0)), float(rng.uniform(0.01, 0.09))
    if model == "cir":
        return model, dict(kappa=kappa, theta=theta, sigma=float(rng.uniform(0.05, 1.2)), v0=float(theta * np.exp(rng.uniform(-1.5, 1.0))), dt=dt, T=T)
    if model == "vasicek":
        return model, dict(kappa=kappa, theta=float(rng.uniform(-0.02, 0.08)), sigma=float(rng.uniform(0.005, 0.1)), r0=float(rng.uniform(-0.02, 0.12)), dt=dt, T=T)
    if model == "heston":
        dt = float(pick(rng, [1 / 250, 1 / 52]))
        return model, dict(kappa=kappa, theta=theta, sigma=float(rng.uniform(0.05, 0.9)), rho=float(rng.uniform(-0.95, 0.95)), v0=float(theta * np.exp(rng.uniform(-1.0, 0.7))),
                           s0=s0, dt=dt, T=T)
    return model, dict(kind=pick(rng, ["const", "smile", "time"]), dt=dt, T=T, s0=s0)


def drv_law_random(ctx, k, rng):
    model, c = random_cfg(rng)
    CONFIGS.append((model, c))
    try:
        drv_law(ctx, len(CONFIGS) - 1 + (len(CONFIGS) if rng.random() < 0.5 else 0), rng)
    finally:
        CONFIGS.pop()


def drv_random(ctx, k, rng):
    n, m = int(pick(rng, [2, 10, 101, 1000])), int(pick(rng, [1, 3, 7]))
    dtype = pick(rng, [F32, F64])
    z = randn_antithetic(n, m, dtype=dtype, shuffle=bool(rng.random() < 0.7))
    mon = "random.antithetic"
    ctx.seen(mon)
    ok = z.shape == (n, m) and z.dtype == dtype
    if ok and n % 2 == 0:
        a = torch.sort(z[:, 0]).values
        b = torch.sort(-z[:, 0]).values
        ok = torch.equal(a, b) and bool((z.to(F64).sum(0).abs() <= 1e-9 * n).all())
        if ok and m > 1:
            # whole rows are negated together
            key = {tuple(r) for r in z.tolist()}
            ok = all(tuple(-v for v in r) in key for r in z.tolist())
    ctx.check(mon, ok, "antithetic", f"randn_antithetic({n}, {m}) rows are not closed under negation / column means not 0", sig=(n % 2, m, str(dtype)), z=z[:6])
    mon = "random.sobol"
    ctx.seen(mon)
    N = int(pick(rng, [4096, 20000]))
    seed = int(rng.integers(1 << 20))
    scr = bool(rng.random() < 0.7)
    w = randn_sobol_boxmuller(N, 2, dtype=F64, seed=seed, scramble=scr) if rng.random() < 0.5 else RandnSobolBoxMuller(scramble=scr, seed=seed)(N, 2, dtype=F64)
    ok = w.shape == (N, 2) and bool(torch.isfinite(w).all()) and abs(float(w.mean())) <= 6 / math.sqrt(2 * N) and abs(float(w.var()) - 1) <= 8 / math.sqrt(2 * N)
    ctx.check(mon, ok, "sobol", f"Sobol/Box-Muller normals (all {2 * N} numbers): mean {float(w.mean())!r}, variance {float(w.var())!r}", sig=(N, "flat"))
    # per column (= per time step when used as a simulation engine): each column must be standard normal as well
    mu_, var_ = w.mean(0), w.var(0)
    okc = bool((mu_.abs() <= 6 / math.sqrt(N)).all()) and bool(((var_ - 1).abs() <= 8 / math.sqrt(N)).all())
    ctx.seen(mon)
    ctx.check(mon, okc, "sobol.columns_not_standard_normal", f"Sobol/Box-Muller normals of size ({N}, 2): column means {mu_.tolist()}, column variances {var_.tolist()}",
              sig=(N, "columns"), mean=mu_, var=var_)


def drv_witness(ctx, k, rng):
    """Fixed witness of the known finding rbergomi.kernel_horizon_normalisation (default horizon 20/250)."""
    c = dict(alpha=-0.4, rho=-0.9, eta=1.9, xi=0.04, dt=1 / 250, T=21)
    draw, checks = build("rbergomi", c, "generator", F64)
    idx = [20]
    tt = np.array(idx) * c["dt"]
    moms = run_stats(lambda b: {"v:log": draw(b)["v"].to(F64).log()}, ["v:log"], idx, 60000, 30000)["v:log"]
    want = c["eta"] ** 2 * tt ** (2 * c["alpha"] + 1)
    z = moms.z_var(want)
    ctx.seen("law.moments")
    ctx.check("law.moments", bool((np.abs(z) <= Z).all()), "rbergomi.kernel_horizon_normalisation",
              f"rough Bergomi, horizon 20/250: Var[log v_T] = {float(moms.var()[0])!r}, model says {float(want[0])!r} (z = {float(z[0]):.1f})", sig=("witness",), config=c)


DRIVERS = [
    ("witness", 1, 1, drv_witness),
    ("pathwise", 120, 5000, drv_pathwise),
    ("law", len(CONFIGS), 4 * len(CONFIGS), drv_law),
    ("law_random", 8, 160, drv_law_random),
    ("random", 30, 600, drv_random),
]
