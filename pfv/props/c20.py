"""C20 - clamps, the Whalley-Wilmott band and small helpers follow their formulas.

Passive contracts (piecewise definitions in exact arithmetic / mpmath) on clamp, leaky_clamp,
ww_width, svi_variance, bilerp, box_muller, realized_volatility and on the forward of Clamp,
LeakyClamp, WhalleyWilmott, SVIVariance; active drivers supply ties, inverted and one-sided bounds,
both inverted_output modes through functions *and* modules, and (s, t, sigma, prev) sweeps.
"""
import math
from fractions import Fraction

import mpmath
import numpy as np
import torch

import pfhedge.nn.functional as F
from pfhedge.instruments import BrownianStock
from pfhedge.instruments import EuropeanOption
from pfhedge.nn import Clamp
from pfhedge.nn import LeakyClamp
from pfhedge.nn import SVIVariance
from pfhedge.nn import WhalleyWilmott

from ..gen import F32, F64, pick, t

mpmath.mp.dps = 40

RULE = (
    "clamp driver: inputs/bounds on a coarse grid (ties, inverted, equal bounds), None/scalar/0-dim/tensor/broadcast bounds, "
    "slopes {0,0.01,0.5,1}, both inverted_output modes, via functions and via modules as configured; WW driver: "
    "(log-moneyness, time, volatility, prev hedge) sweeps x cost {0,1e-5,1e-3,1e-2} x a {0.1,1,10} x call/put x strike, oracle "
    "from mpmath Black-Scholes delta/gamma; helper drivers: SVI / bilerp / Box-Muller / realized volatility against mpmath "
    "formulas. distinct = distinct (function, bound kinds, mode, region-set) signatures; trivial = input inside the bounds everywhere"
)
ASSUMPTIONS = [
    "python-float / float64 bounds and parameters are cast to the input dtype by the library before use; the oracle applies the same cast",
    "leaky clamp outside the interval: <= 4 ulp of (|bound| + slope*|x - bound|)",
    "Whalley-Wilmott: 1e-9 relative (float64) on delta and width; prev hedge within the band is returned bit-identical",
]
ANCHORS = ['pfhedge.nn.functional:leaky_clamp',
           'pfhedge.nn.functional:clamp',
           'pfhedge.nn.modules.clamp:LeakyClamp.forward',
           'pfhedge.nn.modules.clamp:Clamp.forward',
           'pfhedge.nn.modules.ww:WhalleyWilmott.forward',
           'pfhedge.nn.modules.ww:WhalleyWilmott.width',
           'pfhedge.nn.functional:ww_width',
           'pfhedge.nn.functional:svi_variance',
           'pfhedge.nn.functional:bilerp',
           'pfhedge.nn.functional:box_muller',
           'pfhedge.nn.functional:realized_volatility',
           'pfhedge.nn.modules.svi:SVIVariance.forward']
DECIDING = ["ww.band_path_dependent", "clamp.piecewise", "leaky_clamp.piecewise", "Clamp.module", "LeakyClamp.module", "ww.band", "ww.zero_cost_is_delta",
            "svi.formula", "bilerp.formula", "box_muller.formula", "realized_volatility.sqrt"]
REQUIRED_BRANCHES = ["ww.path.max_below_strike", "svi.sigma_zero_or_negative", "ww.cost_changed_after_construction", "clamp.inverted.mean", "clamp.inverted.max", "leaky.inverted.max", "ww.inside_band", "ww.outside_band",
                     "module.inverted.max"]


def _to(x, ref):
    if x is None:
        return None
    return torch.as_tensor(x).to(ref)


def judge_clamp(ctx, mon, x, lo, hi, slope, mode, out, sig):
    """Piecewise oracle, elementwise, exact. slope=0 -> plain clamp."""
    lo_t, hi_t = _to(lo, x), _to(hi, x)
    shp = torch.broadcast_shapes(x.shape, *(b.shape for b in (lo_t, hi_t) if b is not None))
    if out.shape != shp:
        ctx.violation(mon, "shape", f"output shape {tuple(out.shape)} expected {tuple(shp)}", sig=sig)
        return
    xs = x.expand(shp).reshape(-1).to(F64).tolist()
    los = lo_t.expand(shp).reshape(-1).to(F64).tolist() if lo_t is not None else [None] * len(xs)
    his = hi_t.expand(shp).reshape(-1).to(F64).tolist() if hi_t is not None else [None] * len(xs)
    outs = out.reshape(-1).to(F64).tolist()
    e = float(torch.finfo(x.dtype).eps)
    sl = Fraction(torch.tensor(float(slope), dtype=x.dtype).item()) if slope else Fraction(0)
    regions = set()
    for i, (xv, lv, hv, ov) in enumerate(zip(xs, los, his, outs)):
        X = Fraction(xv)
        if lv is not None and hv is not None and lv > hv:
            regions.add("inverted")
            want = (Fraction(lv) + Fraction(hv)) / 2 if mode == "mean" else Fraction(hv)
            tol = e * float(abs(Fraction(lv)) + abs(Fraction(hv)))
        else:
            def near(b):
                # max(x, b + s (x - b)) / min(...) select x itself unless the margin (1-s)|x-b| is below the
                # rounding error of b + s (x - b); then the rounded alternative may win (always so for s = 1)
                if b is None or not sl:
                    return 0.0
                B = Fraction(b)
                err = 4 * e * float(abs(B) + abs(X - B))
                return err if float((1 - sl) * abs(X - B)) <= 4 * err else 0.0

            if lv is not None and X < Fraction(lv):
                regions.add("below")
                want = Fraction(lv) + sl * (X - Fraction(lv))
                tol = (4 * e * float(abs(Fraction(lv)) + sl * abs(X - Fraction(lv))) if sl else 0.0) + near(hv)
            elif hv is not None and X > Fraction(hv):
                regions.add("above")
                want = Fraction(hv) + sl * (X - Fraction(hv))
                tol = (4 * e * float(abs(Fraction(hv)) + sl * abs(X - Fraction(hv))) if sl else 0.0) + near(lv)
            else:
                regions.add("inside" if not ((lv is not None and X == Fraction(lv)) or (hv is not None and X == Fraction(hv))) else "tie")
                want, tol = X, near(lv) + near(hv)
        if not (math.isfinite(ov) and abs(Fraction(ov) - want) <= tol):
            reg = sorted(regions)[-1]
            ctx.violation(mon, "piecewise." + ("inverted." + mode if lv is not None and hv is not None and lv > hv else "ordered"),
                          f"element {i}: x={xv!r} min={lv!r} max={hv!r} slope={slope} mode={mode}: got {ov!r}, expected {float(want)!r}",
                          sig=sig, x=xv, min=lv, max=hv, slope=slope, inverted_output=mode, observed=ov, oracle=float(want))
            return
    if "inverted" in regions:
        ctx.branch(("leaky" if slope else "clamp") + ".inverted." + mode)
    ctx.ok(mon, sig=tuple(sig) + (tuple(sorted(regions)),), trivial=regions <= {"inside"})


def gen_clamp_case(rng, dtype, allow_mixed=True):
    shape = pick(rng, [(7,), (3, 4), (2, 3, 2), ()])
    grid = lambda s: t(np.round(rng.standard_normal(s) * 2) / 2, dtype)  # noqa: E731
    x = grid(shape) if rng.random() < 0.7 else t(rng.standard_normal(shape), dtype)

    def bound(kind):
        if kind == "none":
            return None
        if kind == "float":
            return float(np.round(rng.standard_normal() * 2) / 2)
        if kind == "0dim":
            return t(np.round(rng.standard_normal() * 2) / 2, dtype)
        if kind == "tensor":
            return grid(shape)
        if kind == "bcast":
            return grid(shape[-1:]) if shape else grid(())
        if kind == "f64":
            return t(rng.standard_normal(shape), F64)
        raise ValueError(kind)

    kinds = ["none", "float", "0dim", "tensor", "tensor", "bcast"]
    kl, kh = pick(rng, kinds), pick(rng, kinds)
    if kl == "none" and kh == "none":
        kh = "tensor"
    if not allow_mixed and {kl, kh} & {"float"} and {kl, kh} - {"float", "none"}:
        kh = kl = "tensor"
    return x, bound(kl), bound(kh), kl, kh


def drv_clamp(ctx, k, rng):
    dtype = pick(rng, [F32, F64])
    x, lo, hi, kl, kh = gen_clamp_case(rng, dtype)
    mode = pick(rng, ["mean", "max"])
    slope = float(pick(rng, [0.0, 0.01, 0.5, 1.0]))
    via = pick(rng, ["fn", "module"])
    sig = (kl, kh, mode, str(dtype), via)
    # -- clamp
    mon = "clamp.piecewise" if via == "fn" else "Clamp.module"
    ctx.seen(mon)
    mixed = (isinstance(lo, float) and isinstance(hi, torch.Tensor)) or (isinstance(hi, float) and isinstance(lo, torch.Tensor))
    x0 = x.clone()
    try:
        if via == "fn":
            out = F.clamp(x, lo, hi, inverted_output=mode)
        else:
            m = Clamp(inverted_output=mode) if mode != "mean" or rng.random() < 0.5 else Clamp()
            if mode == "max":
                ctx.branch("module.inverted.max")
            out = m(x, lo, hi)
    except TypeError as ex:
        key = "clamp.max_mode_mixed_scalar_tensor_typeerror" if (mode == "max" and mixed) else "clamp.typeerror"
        ctx.violation(mon, key, f"clamp raised TypeError for min kind {kl}, max kind {kh}, mode {mode} via {via}: {str(ex)[:120]}",
                      sig=sig, min=lo, max=hi, mode=mode)
        out = None
    if out is not None:
        judge_clamp(ctx, mon, x, lo, hi, 0.0, mode, out, sig)
    # -- leaky clamp
    mon = "leaky_clamp.piecewise" if via == "fn" else "LeakyClamp.module"
    ctx.seen(mon)
    if via == "fn":
        out = F.leaky_clamp(x, lo, hi, clamped_slope=slope, inverted_output=mode)
    else:
        if mode == "max":
            ctx.branch("module.inverted.max")
        out = LeakyClamp(clamped_slope=slope, inverted_output=mode)(x, lo, hi)
    judge_clamp(ctx, mon, x, lo, hi, slope, mode, out, sig + (slope,))
    ctx.check("clamp.input_untouched", torch.equal(x, x0), "mutated", "clamp modified its input", sig=(via,))
    if k < 4:
        ctx.sample({"driver": "clamp", "x": x, "min": lo, "max": hi, "mode": mode, "slope": slope, "via": via, "out": out})


# ---- Whalley-Wilmott ----------------------------------------------------------------------------
def bs_delta_gamma(s, tt, v, K, call):
    s, tt, v, K = (mpmath.mpf(float(z)) for z in (s, tt, v, K))
    w = v * mpmath.sqrt(tt)
    d1 = s / w + w / 2
    delta = mpmath.ncdf(d1) - (0 if call else 1)
    S = K * mpmath.e ** s
    gamma = mpmath.npdf(d1) / (S * w)
    return delta, gamma, S


def drv_ww_path(ctx, k, rng):
    """Whalley-Wilmott on path-dependent options (features: log-moneyness, running maximum, time to maturity, volatility, previous hedge): the hedge is
    the previous hedge kept inside [delta - width, delta + width], with delta and width the module's own (each judged elsewhere: C08 / ww_width)."""
    from pfhedge.instruments import AmericanBinaryOption, LookbackOption

    dtype = F64 if rng.random() < 0.8 else F32
    cost = float(pick(rng, [1e-5, 1e-3, 1e-2, 0.0]))
    a = float(pick(rng, [0.1, 1.0, 10.0]))
    K = float(pick(rng, [1.0, 0.8, 1.3]))
    cls = pick(rng, [LookbackOption, AmericanBinaryOption])
    d = cls(BrownianStock(cost=cost), strike=K)
    m = WhalleyWilmott(d, a=a)
    n = 12
    s = t(rng.uniform(-0.3, 0.3, n), dtype)
    mx = torch.maximum(s, t(rng.uniform(-0.3, 0.3, n), dtype))
    tt = t(10 ** rng.uniform(-2.0, 0.3, n), dtype)
    v = t(rng.uniform(0.05, 0.6, n), dtype)
    base = torch.stack([s, mx, tt, v], dim=-1)
    with torch.no_grad():
        delta = m.bs(base).squeeze(-1)
        width = m.width(base).squeeze(-1)
    prev = torch.where(torch.as_tensor(rng.random(n) < 0.5), delta + t(rng.standard_normal(n) * 0.02, dtype), t(rng.uniform(-1.2, 1.2, n), dtype))
    with torch.no_grad():
        out = m(torch.cat([base, prev.unsqueeze(-1)], dim=-1)).squeeze(-1)
    mon = "ww.band_path_dependent"
    ctx.seen(mon)
    if bool((mx < 0).any()):
        ctx.branch("ww.path.max_below_strike")
    fin = torch.isfinite(delta) & torch.isfinite(width)
    want = torch.minimum(torch.maximum(prev, delta - width), delta + width)
    e_ = float(torch.finfo(dtype).eps)
    ok = bool(((out - want).abs()[fin] <= 8 * e_ * (want.abs() + width.abs() + 1)[fin]).all())
    i = int(((out - want).abs() * fin).argmax())
    ctx.check(mon, ok, "ww_band_path", f"WhalleyWilmott({cls.__name__}) output {float(out[i])!r} is not the previous hedge {float(prev[i])!r} kept inside delta +- width = "
              f"{float(delta[i])!r} +- {float(width[i])!r} (cost {cost}, max_log_moneyness {float(mx[i])!r})", sig=(cls.__name__, str(dtype), cost > 0, a),
              log_moneyness=s, max_log_moneyness=mx, time_to_maturity=tt, volatility=v, prev=prev, out=out, delta=delta, width=width)


def drv_ww(ctx, k, rng):
    dtype = F64 if rng.random() < 0.8 else F32
    cost = float(pick(rng, [0.0, 1e-5, 1e-3, 1e-2]))
    a = float(pick(rng, [0.1, 1.0, 10.0]))
    call = bool(rng.random() < 0.6)
    K = float(pick(rng, [1.0, 1.0, 0.8, 1.3]))
    if rng.random() < 0.5:
        d = EuropeanOption(BrownianStock(cost=cost), call=call, strike=K)
        m = WhalleyWilmott(d, a=a)
    else:
        # the cost rate is a property of the instrument and may be changed after the module was built: the band uses the current one
        stock = BrownianStock(cost=float(pick(rng, [0.0, 5e-4, 2e-2])))
        d = EuropeanOption(stock, call=call, strike=K)
        m = WhalleyWilmott(d, a=a)
        stock.cost = cost
        ctx.branch("ww.cost_changed_after_construction")
    n = 12
    s = t(rng.uniform(-0.3, 0.3, n), dtype)
    tt = t(10 ** rng.uniform(-2.5, 0.5, n), dtype)
    v = t(rng.uniform(0.05, 0.6, n), dtype)
    # previous hedges placed inside, on and outside the band (decided by the oracle afterwards)
    prev = t(rng.uniform(-1.2, 1.2, n), dtype)
    with torch.no_grad():
        base = torch.stack([s, tt, v], dim=-1)
        bs_delta = m.bs(base).squeeze(-1)
    near = rng.random(n) < 0.5
    prev = torch.where(torch.as_tensor(near), bs_delta + t(rng.standard_normal(n) * 0.02, dtype), prev)
    inp = torch.stack([s, tt, v, prev], dim=-1)
    out = m(inp).squeeze(-1)
    mon = "ww.band"
    ctx.seen(mon)
    rel = 1e-9 if dtype == F64 else 2e-4
    sig = (str(dtype), cost, a, call, K)
    ok, why, det = True, "", {}
    for i in range(n):
        delta, gamma, S = bs_delta_gamma(s[i], tt[i], v[i], K, call)
        w = (mpmath.mpf(3) * mpmath.mpf(cost) * gamma**2 * S / (2 * mpmath.mpf(a))) ** (mpmath.mpf(1) / 3)
        lo, hi = delta - w, delta + w
        p = mpmath.mpf(float(prev[i]))
        o = float(out[i])
        # delta of a put is ncdf(d1) - 1 in the dtype: absolute rounding error of order eps
        slack = rel * (abs(delta) + w) + 8 * float(torch.finfo(dtype).eps)
        if lo + slack <= p <= hi - slack:
            ctx.branch("ww.inside_band")
            if o != float(prev[i]):
                ok, why = False, f"prev hedge {float(p)!r} lies inside the band [{float(lo)!r},{float(hi)!r}] but output is {o!r}"
        elif p < lo - slack:
            ctx.branch("ww.outside_band")
            if abs(mpmath.mpf(o) - lo) > slack:
                ok, why = False, f"prev hedge {float(p)!r} below the band: output {o!r}, expected lower edge {float(lo)!r}"
        elif p > hi + slack:
            ctx.branch("ww.outside_band")
            if abs(mpmath.mpf(o) - hi) > slack:
                ok, why = False, f"prev hedge {float(p)!r} above the band: output {o!r}, expected upper edge {float(hi)!r}"
        else:
            ctx.skipped(mon, "prev_on_band_edge")
        if not ok:
            det = dict(log_moneyness=float(s[i]), time_to_maturity=float(tt[i]), volatility=float(v[i]), prev=float(p),
                       cost=cost, a=a, call=call, strike=K, delta=float(delta), width=float(w), observed=o)
            break
    ctx.check(mon, ok, "band", why, sig=sig, **det)
    if cost == 0.0:
        mon = "ww.zero_cost_is_delta"
        ctx.seen(mon)
        ctx.check(mon, bool((out - bs_delta).abs().max() <= 8 * float(torch.finfo(dtype).eps)), "zero_cost",
                  "with zero cost the Whalley-Wilmott output differs from the Black-Scholes delta", sig=sig, out=out, delta=bs_delta)
    # ww_width functional against its formula (tensor cost / a as well)
    mon = "ww_width.formula"
    ctx.seen(mon)
    g = t(10 ** rng.uniform(-2, 1.5, n), dtype)
    sp = t(np.exp(rng.uniform(-0.5, 0.5, n)), dtype)
    c2 = float(pick(rng, [0.0, 1e-4, 2e-3]))
    a2 = float(pick(rng, [0.3, 1.0, 4.0]))
    wv = F.ww_width(g, sp, c2, a2)
    want = [(mpmath.mpf(3) * c2 * mpmath.mpf(float(g[i])) ** 2 * mpmath.mpf(float(sp[i])) / (2 * a2)) ** (mpmath.mpf(1) / 3) for i in range(n)]
    okw = all(abs(mpmath.mpf(float(wv[i])) - want[i]) <= (1e-12 if dtype == F64 else 1e-5) * (want[i] + 1e-300) + 1e-300 for i in range(n))
    ctx.check(mon, okw, "ww_width", "ww_width != (3 c gamma^2 S / (2a))^(1/3)", sig=(str(dtype), c2, a2), gamma=g, spot=sp, cost=c2, a=a2, got=wv)
    if k < 3:
        ctx.sample({"driver": "ww", "cost": cost, "a": a, "call": call, "strike": K, "input": inp[:3], "output": out[:3]})


# ---- helpers -------------------------------------------------------------------------------------
def drv_helpers(ctx, k, rng):
    dtype = pick(rng, [F32, F64])
    rel = 1e-12 if dtype == F64 else 3e-6
    n = 9
    # SVI
    mon = "svi.formula"
    ctx.seen(mon)
    a, b, rho, m_, sg = (float(rng.uniform(0.0, 0.1)), float(rng.uniform(0.05, 0.5)), float(rng.uniform(-0.9, 0.9)),
                         float(rng.uniform(-0.3, 0.3)), float(pick(rng, [0.05, 0.3, 1.0, 2.5, 0.0, -0.3, 1e-30, -2.5])))
    # "all SVI parameters": the documented formula is even in sigma and defined at sigma = 0 (where it is the piecewise-linear limit)
    if sg <= 1e-20:
        ctx.branch("svi.sigma_zero_or_negative")
    kk = t(rng.uniform(-1, 1, n), dtype)
    if sg == 0.0:
        kk[0] = m_  # the kink itself: k - m = 0 up to the rounding of m into the dtype
    via = pick(rng, ["fn", "module"])
    got = F.svi_variance(kk, a, b, rho, m_, sg) if via == "fn" else SVIVariance(a, b, rho, m_, sg)(kk)
    ok = True
    for i in range(n):
        km = mpmath.mpf(float(kk[i])) - mpmath.mpf(float(torch.tensor(m_, dtype=dtype)))  # tensor - python float: the scalar is taken in the tensor's dtype
        want = a + b * (rho * km + mpmath.sqrt(km * km + mpmath.mpf(sg) ** 2))
        if not abs(mpmath.mpf(float(got[i])) - want) <= rel * (abs(want) + abs(a) + b * (abs(km) + abs(sg))) * 8:
            ok = False
            break
    ctx.check(mon, ok, "svi", "svi_variance != a + b (rho (k-m) + sqrt((k-m)^2 + sigma^2))", sig=(str(dtype), via, sg > 1),
              k=kk, a=a, b=b, rho=rho, m=m_, sigma=sg, got=got)
    # bilerp
    mon = "bilerp.formula"
    ctx.seen(mon)
    i1, i2, i3, i4 = (t(rng.standard_normal(n), dtype) for _ in range(4))
    wk = pick(rng, ["float", "tensor", "outside"])
    if wk == "float":
        w1, w2 = float(rng.random()), float(rng.random())
    elif wk == "tensor":
        w1, w2 = t(rng.random(n), dtype), t(rng.random(n), dtype)
    else:
        w1, w2 = float(rng.uniform(-1, 2)), t(rng.uniform(-1, 2, n), dtype)
    got = F.bilerp(i1, i2, i3, i4, w1, w2)
    ok = True
    e = float(torch.finfo(dtype).eps)
    for i in range(n):
        W1 = Fraction(float(w1[i]) if isinstance(w1, torch.Tensor) else torch.tensor(w1, dtype=dtype).item())
        W2 = Fraction(float(w2[i]) if isinstance(w2, torch.Tensor) else torch.tensor(w2, dtype=dtype).item())
        A, B, C, D = (Fraction(float(z[i])) for z in (i1, i2, i3, i4))
        want = (1 - W1) * (1 - W2) * A + W1 * (1 - W2) * B + (1 - W1) * W2 * C + W1 * W2 * D
        mag = (abs(1 - W1) + abs(W1)) * (abs(1 - W2) + abs(W2)) * max(abs(A), abs(B), abs(C), abs(D))
        if abs(Fraction(float(got[i])) - want) > 32 * e * float(mag) + 1e-300:
            ok = False
            break
    ctx.check(mon, ok, "bilerp", "bilerp != bilinear interpolation formula", sig=(str(dtype), wk), i1=i1, i2=i2, i3=i3, i4=i4, w1=w1, w2=w2, got=got)
    # Box-Muller (incl. epsilon clamp at u1 = 0)
    mon = "box_muller.formula"
    ctx.seen(mon)
    u1 = t(rng.random(n), dtype)
    u2 = t(rng.random(n), dtype)
    u1[0] = 0.0
    u1[1] = 1.0
    u2[2] = 0.0
    epsv = float(pick(rng, [1e-10, 1e-10, 1e-5]))
    z0, z1 = F.box_muller(u1, u2, epsilon=epsv)
    ok = True
    for i in range(n):
        uu = max(mpmath.mpf(float(u1[i])), mpmath.mpf(torch.tensor(epsv, dtype=dtype).item()))
        r = mpmath.sqrt(-2 * mpmath.log(uu))
        ang = 2 * mpmath.pi * mpmath.mpf(float(u2[i]))
        for got_, want in ((z0[i], r * mpmath.cos(ang)), (z1[i], r * mpmath.sin(ang))):
            if abs(mpmath.mpf(float(got_)) - want) > (rel * 50) * (r + 1) + (1e-15 if dtype == F64 else 1e-6):
                ok = False
    ctx.check(mon, ok, "box_muller", "box_muller != sqrt(-2 log u1) (cos, sin)(2 pi u2) with u1 clamped at epsilon",
              sig=(str(dtype), epsv), u1=u1, u2=u2, epsilon=epsv, z0=z0, z1=z1)
    # realized volatility = sqrt(realized variance)
    mon = "realized_volatility.sqrt"
    ctx.seen(mon)
    x = t(np.exp(np.cumsum(rng.standard_normal((4, 6)) * 0.1, axis=1)), dtype)
    dt = float(pick(rng, [1 / 250, 0.1]))
    rv, rvol = F.realized_variance(x, dt), F.realized_volatility(x, dt)
    want = [mpmath.sqrt(sum((mpmath.log(mpmath.mpf(float(x[j, i + 1]))) - mpmath.log(mpmath.mpf(float(x[j, i])))) ** 2 for i in range(5)) / 5 / dt)
            for j in range(4)]
    ok = all(abs(mpmath.mpf(float(rvol[j])) - want[j]) <= (1e-10 if dtype == F64 else 1e-4) * want[j] for j in range(4))
    ok = ok and bool((rvol - rv.sqrt()).abs().max() <= 4 * e * rvol.abs().max())
    ctx.check(mon, ok, "realized_volatility", "realized_volatility != sqrt(mean squared log return / dt)", sig=(str(dtype), dt), x=x, dt=dt, got=rvol)
    if k < 2:
        ctx.sample({"driver": "helpers", "svi_k": kk, "svi_out": got})


def drv_witness(ctx, k, rng):
    """Fixed witness of the known finding clamp.max_mode_mixed_scalar_tensor_typeerror."""
    x = torch.tensor([1.0, 2.0, 3.0])
    mon = "clamp.piecewise"
    ctx.seen(mon)
    try:
        out = F.clamp(x, 0.0, torch.tensor([1.5, 1.5, 1.5]), inverted_output="max")
        judge_clamp(ctx, mon, x, 0.0, torch.tensor([1.5, 1.5, 1.5]), 0.0, "max", out, ("witness",))
    except TypeError as ex:
        ctx.violation(mon, "clamp.max_mode_mixed_scalar_tensor_typeerror", f"clamp(x, 0.0, tensor, inverted_output='max') raised TypeError: {str(ex)[:80]}")


DRIVERS = [
    ("ww_path", 40, 1500, drv_ww_path),
    ("witness", 1, 1, drv_witness),
    ("clamp", 500, 30000, drv_clamp),
    ("ww", 120, 5000, drv_ww),
    ("helpers", 150, 5000, drv_helpers),
]
