"""C06 - cash() is the certainty equivalent and price() the indifference price.

Passive contracts on every HedgeLoss.cash (overrides and the default search, over the whole subclass
tree incl. user subclasses defined here) and on Hedger.price (inner taps on criterion.cash and on the
simulations it triggers); active drivers for samples (constant, multi-column, targets) and for pricing
pipelines (payoff shifts through clauses, n_times, entropic price = loss under the same seed).
"""
import math

import numpy as np
import torch

from pfhedge.instruments import BaseDerivative
from pfhedge.nn import EntropicLoss
from pfhedge.nn import EntropicRiskMeasure
from pfhedge.nn import ExpectedShortfall
from pfhedge.nn import Hedger
from pfhedge.nn import HedgeLoss
from pfhedge.nn import IsoelasticLoss
from pfhedge.nn import QuadraticCVaR

from .. import contracts
from .. import pipelines as P
from ..gen import F32, F64, pick, sample, t
from ..tol import bit_equal

RULE = (
    "cash driver: criteria {EntropicRiskMeasure, EntropicLoss, IsoelasticLoss, ExpectedShortfall, QuadraticCVaR, user subclasses on the default "
    "search: linear, custom exponential, worst-case, mean-semideviation} x samples (N in 1..300, 1-d and multi-column, gauss / ties / "
    "heavy / two-point / constant, moderate magnitudes) x targets (none, scalar, tensor, large shift) x dtype; price driver: derivatives x "
    "{BlackScholes, WhalleyWilmott, MLP} hedgers x criteria x clauses {none, +k, knock-out} x n_times {1,3}, RNG re-seeded for paired "
    "runs. distinct = (criterion, relation, sample class, target class, dtype)"
)
ASSUMPTIONS = [
    "certainty equivalence is judged to |loss(const cash) - loss(sample)| <= local slope of c -> loss(const c) times the search precision (1e-6) "
    "for the default search, and to rounding for the closed forms",
    "user criteria used for the default search are monotone (their certainty equivalent lies between worst and best outcome)",
    "pricing models are deterministic, so portfolio and payoff can be recomputed from the last simulation",
]
ANCHORS = ['pfhedge.nn.modules.loss:HedgeLoss.cash',
           'pfhedge.nn.modules.loss:EntropicLoss.cash',
           'pfhedge.nn.modules.hedger:Hedger.price',
           'pfhedge._utils.operations:ensemble_mean']
PYTEST_WORKLOAD = True  # thorough tier also runs /repo/tests with these passive monitors attached (DESIGN.md 2.7)
DECIDING = ["cash.history_independent", "cash.equivalent", "cash.bounds", "cash.qcvar_is_minus_risk", "price.is_minus_cash", "price.shift_equivariant", "price.entropic_equals_loss"]
REQUIRED_BRANCHES = ["cash.oce_with_nonzero_w", "price.init_state_given", "cash.erm_large_ax", "cash.default_search", "cash.closed_form", "cash.target_tensor", "cash.multi_column", "cash.constant_sample",
                     "price.clauses", "price.n_times>1"]

_CTX = None
_PRICE_TAPS = []
_BASE_CASH = None


# ---- user criteria relying on the default search ----------------------------------------------------------
class LinearLoss(HedgeLoss):
    def forward(self, input, target=0.0):
        return -(input - target).mean(0)


class CustomExpLoss(HedgeLoss):
    def forward(self, input, target=0.0):
        return torch.expm1(-0.7 * (input - target)).mean(0)


class WorstCase(HedgeLoss):
    def forward(self, input, target=0.0):
        return -(input - target).min(0).values


class MeanSemiDev(HedgeLoss):
    def forward(self, input, target=0.0):
        x = input - target
        m = x.mean(0)
        return -m + 0.5 * torch.relu(m - x).square().mean(0).sqrt()


def _u_softplus(x):
    return -2.0 * torch.nn.functional.softplus(-x)


def _u_exp(x):
    return -torch.exp(-x)


USER = [LinearLoss, CustomExpLoss, WorstCase, MeanSemiDev]
RISK_AVERSE = (EntropicRiskMeasure, EntropicLoss, IsoelasticLoss, ExpectedShortfall, CustomExpLoss, WorstCase, MeanSemiDev)


def uses_default(crit):
    f = type(crit).cash
    return getattr(f, "__pfv_orig__", f) is _BASE_CASH


def judge_cash(ctx, crit, x, target, out):
    """x: input, target as given; out: cash returned."""
    name = type(crit).__name__
    pl = (x - target).detach()
    if pl.dim() < 1 or pl.shape[0] < 1 or not torch.isfinite(pl).all():
        ctx.ood("cash.equivalent")
        return
    default = uses_default(crit)
    ctx.branch("cash.default_search" if default else "cash.closed_form")
    multi = pl.dim() > 1 and pl[0].numel() > 1
    if multi:
        ctx.branch("cash.multi_column")
    const = bool((pl == pl[:1]).all())
    if const:
        ctx.branch("cash.constant_sample")
    e = float(torch.finfo(pl.dtype).eps)
    sig = (name, "multi" if multi else "1d", "const" if const else "var", str(pl.dtype), "default" if default else "closed")
    if out.shape != pl.shape[1:]:
        key = "cash.default_search_mixes_columns" if (default and multi) else "shape"
        ctx.seen("cash.bounds")
        ctx.violation("cash.bounds", key, f"{name}.cash returned shape {tuple(out.shape)} for a sample of shape {tuple(pl.shape)}", sig=sig)
        return
    out = out.detach()
    if isinstance(crit, QuadraticCVaR):
        ctx.seen("cash.qcvar_is_minus_risk")
        ctx.check("cash.qcvar_is_minus_risk", bit_equal(out, -crit(pl)), "qcvar_cash", "QuadraticCVaR.cash != -QuadraticCVaR(input - target)", sig=sig,
                  cash=out, risk=crit(pl))
        return
    lo, hi, mean = pl.amin(0), pl.amax(0), pl.to(F64).mean(0)
    prec = 1e-6 if default else 0.0
    scale = float(pl.abs().max()) + 1e-30
    # closed forms go through exp / log of O(1) quantities (e.g. -log(mean exp(-a x)) / a): their rounding error is absolute, eps / a
    slack = prec + 64 * e * (scale + 1.0 + 1.0 / float(getattr(crit, "a", 1.0)))
    ctx.seen("cash.bounds")
    okb = bool(((out >= lo - slack) & (out <= hi + slack)).all())
    if okb and isinstance(crit, RISK_AVERSE):
        okb = bool((out.to(F64) <= mean + slack + (pl.shape[0] + 8) * e * scale).all())
    keyb = "cash.default_search_mixes_columns" if (default and multi) else "bounds"
    if not ctx.check("cash.bounds", okb, keyb, f"{name}.cash outside [min, max] or above the mean", sig=sig, sample=pl.reshape(pl.shape[0], -1)[:40, :3], cash=out,
                     criterion=repr(crit)):
        return
    # certainty equivalence: loss(const cash) == loss(sample), per column
    ctx.seen("cash.equivalent")
    with torch.no_grad():
        want = crit(pl)
        const_s = out.unsqueeze(0).expand_as(pl).contiguous()
        got = crit(const_s)
        h = max(prec, 1e-4 * scale, 1e-6)
        slope = ((crit(const_s + h) - crit(const_s - h)).abs() / (2 * h)).to(F64)
    tol = slope * (2 * prec + 64 * e * (scale + 1.0 + 1.0 / float(getattr(crit, "a", 1.0)))) + (pl.shape[0] + 64) * e * (want.abs().to(F64) + got.abs().to(F64)) + 1e-300
    ok = bool(((got.to(F64) - want.to(F64)).abs() <= tol).all())
    ctx.check("cash.equivalent", ok, "cash.default_search_mixes_columns" if (default and multi) else "not_equivalent",
              f"{name}: loss(constant sample at cash) != loss(sample): {got.reshape(-1)[:3].tolist()} vs {want.reshape(-1)[:3].tolist()}", sig=sig,
              sample=pl.reshape(pl.shape[0], -1)[:40, :3], cash=out, loss_at_cash=got, loss=want, criterion=repr(crit))


def _mk_cash(orig):
    def cash(self, input, target=0.0):
        ctx = _CTX
        try:
            out = orig(self, input, target)
        except ValueError as ex:
            if ctx is not None and uses_default(self) and "lower < upper" in str(ex):
                pl = (input - target).detach()
                if not bool(torch.isfinite(pl).all()):
                    ctx.ood("cash.equivalent")  # NaN P&L (non-finite hedges are C18's subject): min/max are NaN, the search cannot start
                    raise
                ctx.seen("cash.equivalent")
                const = bool((pl == pl.reshape(-1)[0]).all())
                ctx.violation("cash.equivalent", "cash.default_search_constant_sample" if const else "cash.valueerror",
                              f"{type(self).__name__}.cash raised {ex} on a {'constant' if const else 'non-constant'} sample of shape {tuple(pl.shape)}",
                              sig=(type(self).__name__, "const" if const else "var"), sample=pl.reshape(-1)[:10])
            raise
        if ctx is None:
            return out
        if _PRICE_TAPS:
            _PRICE_TAPS[-1]["cash"].append((input.detach().clone(), target.detach().clone() if isinstance(target, torch.Tensor) else target, out.detach().clone()))
        try:
            if isinstance(target, torch.Tensor):
                ctx.branch("cash.target_tensor")
            judge_cash(ctx, self, input.detach(), target.detach() if isinstance(target, torch.Tensor) else target, out)
        except Exception as ex:
            from ..core import HarnessError

            raise HarnessError(f"cash oracle failed: {ex!r}")
        return out

    return cash


def _mk_dsim(orig):
    def simulate(self, n_paths=1, init_state=None):
        if _PRICE_TAPS:
            _PRICE_TAPS[-1]["sims"].append(n_paths)
            _PRICE_TAPS[-1].setdefault("inits", []).append(init_state)
        return orig(self, n_paths=n_paths, init_state=init_state)

    return simulate


def _mk_price(orig):
    def price(self, derivative, hedge=None, n_paths=1000, n_times=1, init_state=None, enable_grad=False):
        ctx = _CTX
        rec = {"cash": [], "sims": []}
        _PRICE_TAPS.append(rec)
        try:
            out = orig(self, derivative, hedge=hedge, n_paths=n_paths, n_times=n_times, init_state=init_state, enable_grad=enable_grad)
        finally:
            _PRICE_TAPS.pop()
        if ctx is None:
            return out
        mon = "price.is_minus_cash"
        ctx.seen(mon)
        cname = type(self.criterion).__name__
        sig = (cname, type(derivative).__name__, type(self.model).__name__, n_times, bool(list(derivative.clauses())))
        if n_times > 1:
            ctx.branch("price.n_times>1")
        if init_state is not None:
            ctx.branch("price.init_state_given")
        if any(i_ is not init_state and i_ != init_state for i_ in rec.get("inits", [])):
            ctx.violation(mon, "init_state", f"price(init_state={init_state}) simulated with init_state {rec.get('inits')}", sig=sig)
            return out
        if len(rec["cash"]) != n_times or rec["sims"] != [n_paths] * n_times:
            ctx.violation(mon, "n_times", f"price(n_times={n_times}, n_paths={n_paths}) made {len(rec['cash'])} cash evaluations on simulations {rec['sims']}", sig=sig)
            return out
        with torch.no_grad():
            outs = torch.stack([-c[2] for c in rec["cash"]])
            want = outs[0] if n_times == 1 else outs.mean(0)
            if n_times == 1:
                ok = bit_equal(out.detach(), want)
            elif not bool(torch.isfinite(want).all()):
                ok = not bool(torch.isfinite(out).all())  # non-finite hedges (C18) propagate; nothing to compare
            else:
                ok = bool(((out.detach() - want).abs() <= 8 * float(torch.finfo(out.dtype).eps) * (want.abs() + 1)).all())
            # the tensors handed to cash are the hedge portfolio and the derivative's payoff (clauses included) of the last simulation
            pf = self.compute_portfolio(derivative, hedge)
            pay = derivative.payoff()
        inp, tgt, _ = rec["cash"][-1]
        ok_pf = bit_equal(inp, pf.detach())
        ok_pay = isinstance(tgt, torch.Tensor) and bit_equal(tgt, pay.detach())
        ctx.check(mon, ok and ok_pf and ok_pay, "price_plumbing", f"price != -cash(portfolio, target=payoff): value ok={ok}, portfolio ok={ok_pf}, payoff ok={ok_pay}",
                  sig=sig, price=out.detach(), minus_cash=want, target_head=tgt[:4] if isinstance(tgt, torch.Tensor) else tgt, payoff_head=pay[:4],
                  clauses=[n for n, _ in derivative.named_clauses()])
        return out

    return price


def setup(ctx):
    global _CTX, _BASE_CASH
    _CTX = ctx
    _BASE_CASH = HedgeLoss.__dict__["cash"]
    ctx.extra["cash_sites"] = contracts.wrap_method(HedgeLoss, "cash", _mk_cash)
    contracts.wrap_method(Hedger, "price", _mk_price)
    contracts.wrap_method(BaseDerivative, "simulate", _mk_dsim)


# ---- drivers -----------------------------------------------------------------------------------------------
def make_crit(rng):
    kind = pick(rng, ["erm", "el", "iso", "es", "qcvar", "user", "user", "iso", "oce"])
    if kind == "oce":
        # optimised certainty equivalent with its wealth parameter away from its initial value (as after training) and a non-exponential utility
        from pfhedge.nn.modules.loss import OCE

        c = OCE(pick(rng, [_u_softplus, _u_exp, _u_softplus]))
        with torch.no_grad():
            c.w.fill_(float(pick(rng, [0.3, -0.4, 0.0, 1.0])))
        return c, kind
    if kind == "erm":
        # incl. large risk aversion: the entropic risk measure (and its cash amount) must stay finite for any finite input
        return EntropicRiskMeasure(float(pick(rng, [0.5, 1.0, 3.0, 10.0, 50.0]))), kind
    if kind == "el":
        return EntropicLoss(float(pick(rng, [0.5, 1.0, 2.0]))), kind
    if kind == "iso":
        return IsoelasticLoss(float(pick(rng, [1.0, 0.5, 0.2]))), kind
    if kind == "es":
        return ExpectedShortfall(float(pick(rng, [0.1, 0.5, 1.0]))), kind
    if kind == "qcvar":
        return QuadraticCVaR(float(pick(rng, [1.0, 10.0]))), kind
    return pick(rng, USER)(), kind


def drv_cash(ctx, k, rng):
    crit, kind = make_crit(rng)
    dtype = pick(rng, [F32, F64, F64])
    if kind == "oce":
        crit.to(dtype)
        ctx.branch("cash.oce_with_nonzero_w" if float(crit.w) != 0.0 else "cash.oce")
    n = int(pick(rng, [1, 2, 5, 30, 300]))
    trail = pick(rng, [(), (), (), (3,), (2, 2)])
    style = pick(rng, ["gauss", "ties", "heavy", "twopoint", "const", "uniform", "lognormal"])
    x, _ = sample(rng, (n,) + tuple(trail), dtype, style=style, scale=float(pick(rng, [0.1, 1.0, 3.0])))
    if style == "heavy":
        x = x.clamp(-8, 8)
    if kind == "iso":
        x = x.abs() + 0.2
    if kind == "erm" and rng.random() < 0.4:
        x = x * 10.0  # a * |x| well beyond the float32 exp range
        ctx.branch("cash.erm_large_ax")
    tk = pick(rng, ["none", "none", "scalar", "tensor", "shift"])
    args = (x,)
    if tk == "scalar":
        args = (x + 0.3, 0.3) if kind == "iso" else (x, float(rng.standard_normal()))
    elif tk == "tensor":
        tg = sample(rng, x.shape, dtype, style="gauss")[0]
        args = (x + tg, tg)  # so that input - target stays in the criterion's domain
    elif tk == "shift":
        # certainty equivalent far outside the range of the *input* (but inside the range of input - target)
        args = (x + 25.0, torch.full_like(x, 25.0))
    try:
        # the cash amount depends on the sample only, not on what was computed from the same tensors before
        fresh = crit.cash(*[z.clone() if isinstance(z, torch.Tensor) else z for z in args])
        crit(*args)
        again = crit.cash(*args)
        ctx.seen("cash.history_independent")
        ctx.check("cash.history_independent", bit_equal(fresh, again), "cash_after_forward", f"{type(crit).__name__}.cash(x, target) differs after {type(crit).__name__}(x, target) "
                  "was evaluated on the same tensors", sig=(type(crit).__name__, tk), fresh=fresh, again=again)
    except ValueError as ex:
        if "lower < upper" not in str(ex):
            raise
    except RuntimeError as ex:
        if "max_iter" not in str(ex):
            raise
    if k < 5:
        ctx.sample({"driver": "cash", "criterion": repr(crit), "shape": list(x.shape), "style": style, "target": tk, "dtype": str(dtype), "x_head": x.reshape(-1)[:5]})


def _bonus(k_):
    def clause(derivative, payoff):
        return payoff + k_

    return clause


def drv_price(ctx, k, rng):
    crit, kind = make_crit(rng)
    if kind in ("iso", "oce"):
        # hedging P&L takes both signs: outside the isoelastic domain; a certainty equivalent under a non-exponential utility (OCE with w held
        # fixed) is not translation invariant, so the shift relation below is not one of its properties
        crit, kind = EntropicRiskMeasure(1.0), "erm"
    dtype = pick(rng, [None, F64])
    derivative, hedge, hedger, n_paths, desc = P.scenario(rng, dtype=dtype, criterion=crit, n_paths=int(pick(rng, [4, 30])),
                                                         model_kind=pick(rng, ["bs", "ww", "mlp", "linear", "mlp_prev"]))
    if "empty" in desc["inputs"]:
        return
    derivative.simulate(n_paths=2)
    P.materialize(hedger, derivative, hedge)
    if desc["clauses"]:
        ctx.branch("price.clauses")
    n_times = int(pick(rng, [1, 1, 3]))
    seed = int(rng.integers(1 << 30))
    torch.manual_seed(seed)
    init = None
    if rng.random() < 0.3:
        init = (1.07,) if desc["stock"] not in ("heston", "rbergomi") else (1.07, 0.05)
    kw_init = {} if init is None else {"init_state": init}
    try:
        p0 = hedger.price(derivative, hedge, n_paths=n_paths, n_times=n_times, **kw_init)
    except (ValueError, RuntimeError) as ex:
        if "lower < upper" in str(ex) or "max_iter" in str(ex):
            return
        if "NaN to integer" in str(ex):
            ctx.skipped("price.shift_equivariant", "non_finite_portfolio_see_C18")  # quadratic_cvar on a NaN P&L (NaN hedge, C18)
            return
        raise
    # adding a constant k to the payoff (through a clause) raises the price by exactly k
    kk = float(pick(rng, [0.25, 1.0, -0.5]))
    derivative.add_clause("pfv_bonus", _bonus(kk))
    ctx.branch("price.clauses")
    torch.manual_seed(seed)
    try:
        p1 = hedger.price(derivative, hedge, n_paths=n_paths, n_times=n_times, **kw_init)
    except (ValueError, RuntimeError) as ex:
        if "lower < upper" in str(ex) or "max_iter" in str(ex):
            return
        if "NaN to integer" in str(ex):
            ctx.skipped("price.shift_equivariant", "non_finite_portfolio_see_C18")  # quadratic_cvar on a NaN P&L (NaN hedge, C18)
            return
        raise
    mon = "price.shift_equivariant"
    ctx.seen(mon)
    e = float(torch.finfo(p0.dtype).eps)
    tol = 256 * e * (abs(float(p0)) + abs(kk) + 1) + (2e-6 if uses_default(crit) else 0.0)
    if isinstance(crit, QuadraticCVaR):
        tol += 1e-4
    ok = bool(torch.isfinite(p0)) and abs(float(p1) - float(p0) - kk) <= tol
    if not torch.isfinite(p0):
        ctx.skipped(mon, "non_finite_price_see_C18")
    else:
        ctx.check(mon, ok, "shift", f"adding {kk} to the payoff changed the price by {float(p1) - float(p0)!r}", sig=(type(crit).__name__, desc["derivative"], desc["model"]),
                  desc=desc, price=p0, shifted=p1, k=kk)
    if isinstance(crit, EntropicRiskMeasure):
        mon = "price.entropic_equals_loss"
        ctx.seen(mon)
        torch.manual_seed(seed)
        with torch.no_grad():
            l1 = hedger.compute_loss(derivative, hedge, n_paths=n_paths, n_times=n_times, **kw_init)
        if torch.isfinite(p1):
            ctx.check(mon, abs(float(l1) - float(p1)) <= 64 * e * (abs(float(p1)) + 1), "entropic_price_vs_loss", f"entropic price {float(p1)!r} != loss {float(l1)!r} "
                      "under the same seed", sig=(desc["derivative"], desc["model"]), desc=desc)
    if k < 3:
        ctx.sample({"driver": "price", **desc, "criterion": repr(crit), "n_times": n_times, "price": p0, "price_shifted": p1, "k": kk})


def drv_witness(ctx, k, rng):
    crit = IsoelasticLoss(0.5)
    if k == 0:
        x = torch.tensor([[1.0, 10.0], [2.0, 20.0], [4.0, 40.0]], dtype=F64)
        crit.cash(x)
    else:
        try:
            crit.cash(torch.full((5,), 2.0, dtype=F64))
        except ValueError:
            pass


DRIVERS = [
    ("witness", 2, 2, drv_witness),
    ("cash", 400, 20000, drv_cash),
    ("price", 70, 3000, drv_price),
]
