#!/bin/sh
# usage: campaign_round.sh <round> <ID>...   confirm the seeds of /tmp/seedout<round>/<ID> with the full suite and run our checks (suffix = round)
R=$1; shift
OUT=/tmp/w/campaign$R.log
for id in "$@"; do
  python3 /verif/tools/seedcheck.py $id /tmp/seedout$R/$id --suffix $R --checks $(cat /tmp/seedout$R/$id/.checks 2>/dev/null || echo $id) >> $OUT 2>&1
done
echo "DONE $*" >> $OUT
