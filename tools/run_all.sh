#!/bin/sh
# usage: run_all.sh quick|thorough [seed ...]   - runs every claimed check, prints one line per run, exits 1 if any rc != 0
tier=${1:-quick}; shift
seeds=${*:-0}
bad=0
cd "$(dirname "$0")/.."
for s in $seeds; do
  for id in C01 C02 C03 C04 C05 C06 C07 C08 C09 C10 C11 C12 C13 C14 C15 C16 C17 C18 C19 C20; do
    out=$(VERIF_SEED=$s bin/check $id $tier 2>&1)
    rc=$?
    echo "$out" | grep -v "^KNOWN-FINDING" | tail -4 | cut -c1-400
    [ $rc -ne 0 ] && bad=1
  done
done
exit $bad
