#!/usr/bin/env python3
"""Regenerate MANIFEST.json from the table below (only properties whose module exists are claimed)."""
import json
import os

ROOT = os.path.dirname(os.path.dirname(os.path.abspath(__file__)))
T = {
    "C01": ("exact-rational oracle contract on pl() + hedger plumbing contract",
            "Every call of pl (all aliases) and of Hedger.compute_pl/compute_portfolio made by generated functional cases and "
            "randomised end-to-end hedging pipelines is compared with the wealth identity evaluated in exact rational arithmetic; "
            "held on the executions observed, not a proof.", "4 C01"),
}
T["C12"] = ("exact-rational payoff contracts on functional payoffs and payoff_fn + clause-order fold check",
            "Every functional payoff call (all aliases) and every derivative payoff_fn call made by generated paths (ties with the strike, T=1/2, "
            "monotone/constant paths) and simulated derivatives is compared per path with the contractual definition in exact arithmetic; "
            "ordering relations and the registration-order fold of clauses (incl. the same callable registered twice, reassigned contract terms) are checked on the same paths. One known finding (forward-start reference step for some on-grid start times).", "4 C12 / 8.3")
T["C13"] = ("exact-rational grid-size contract at every simulate() exit + time-to-maturity value checks",
            "Every primary/derivative simulate() in a sweep over (dt, k, way of writing the maturity) x 8 primaries is judged against T = ceil(M/dt)+1 computed in exact "
            "rational arithmetic; time_to_maturity values, negative indices and consumer shapes are checked on the same grid. One known finding (float ratio just above an integer).", "4 C13")
T["C20"] = ("exact piecewise / mpmath formula contracts on clamps, Whalley-Wilmott band and helpers",
            "Clamp/leaky clamp (functions and modules as configured, ties, inverted, one-sided, broadcast bounds) are judged element-wise in exact arithmetic; the "
            "Whalley-Wilmott output is judged against band membership computed from an mpmath Black-Scholes oracle; SVI, bilerp, Box-Muller, realized volatility against mpmath formulas.", "4 C20")
T["C05"] = ("definition contracts (exact rational / 50-digit mpmath) on the risk-measure functions and loss modules",
            "Every call of entropic_risk_measure, expected_shortfall, value_at_risk, quadratic_cvar (all aliases) and the loss modules' forward made by generated samples "
            "(ties, constants, heavy tails, N=1, magnitudes 1e-6..1e6, explicit dims, targets) is compared column by column with the mathematical definition; "
            "three known findings (quadratic-CVaR bracket, its max_iter failure on near-constant float32 samples, dim=None on multi-dimensional input).", "4 C05")
T["C04"] = ("metamorphic relation monitor over the real criteria (axioms with derived slack)",
            "Monotonicity, cash invariance, convexity, ES homogeneity / monotonicity in p, entropic monotonicity in a, and the -max/-min/-mean bounds "
            "(lowered by 1/(4 lam) for quadratic CVaR) and monotone+convex expected-utility losses are checked between calls of the real modules/functions on "
            "generated tuples (X, Y, c, lambda, k); slack is the summed accuracy bound of the values involved. Two known findings (quadratic CVaR).", "4 C04")
T["C07"] = ("quadrature-oracle contract on the Black-Scholes price functions + module plumbing check",
            "Sampled elements of every bs_*_price call (all aliases; sweeps over moneyness, maturity, volatility, strike, running max, broadcast shapes, call/put; "
            "modules built from simulated derivatives) are compared with a 30-digit numerical integration of the payoff against the lognormal / running-maximum law, "
            "independent of the closed forms. One known finding (float32 accuracy of the lookback price with python-scalar arguments).", "4 C07")
T["C09"] = ("metamorphic relation monitor over the real bs_*_price functions (vectorised pairs/triples)",
            "Put-call parity, binary parity, intrinsic/spot bounds, monotonicity and convexity in the spot, monotonicity in volatility and time, lookback and "
            "American-binary dominance, price 1 once the barrier is reached (incl. running max exactly on the strike) and continuity across M=K are checked "
            "on every element of generated batches with slack equal to the rounding bound.", "4 C09")
T["C18"] = ("NaN-watch contracts on all bs_* price/delta functions + certain-payoff limit oracle + finiteness monitor on BS/WW hedgers",
            "Every price/delta call (all aliases) is watched for NaN on finite non-negative inputs; a boundary grid (t, sigma in {0, tiny}, |s| from 0 to 50, running max on "
            "both sides, call/put, strikes) is judged against the payoff that is then certain and the limiting deltas; negative inputs must raise ValueError in every function; "
            "Black-Scholes / Whalley-Wilmott hedgers on simulated paths (incl. Heston paths reaching zero variance) must give finite hedge and P&L; far out of the money (log-moneyness down to -2000) prices, deltas, gamma and the Whalley-Wilmott band and hedge must be finite and at their limits. Known findings: lookback delta / Whalley-Wilmott gamma at zero volatility.", "4 C18 / 8.3")
T["C08"] = ("finite-difference oracle monitor on every Greek of every BS module/function + autogreek on random user pricers",
            "delta/gamma/vega/theta of the four pricing modules and of the functional forms are compared with 4th-order Richardson central differences of the same "
            "object's float64 price over sweeps dominated by t != 1 and K != 1 (incl. barrier already reached with the spot back below); the automatic Greeks are run on "
            "randomly parameterised smooth pricers under every accepted parameterisation (also with create_graph). The oracle uses three step sizes (two successive extrapolations; their difference is its uncertainty) and judges at the strike value the library holds; arguments must come back unchanged, the same tensor object for spot and running maximum must equal an equal copy, and shared 0-dim / one-element volatility or maturity must give the full-shape values point by point; at an exact tie of spot and running maximum the Greeks are compared with backward differences; far out of the money, where the price is flat zero, the Greeks must be finite and negligible.", "4 C08 / 8.3")
T["C19"] = ("bracketing-condition postcondition on every bisect call + closed-form-inverse and implied-volatility round-trip monitors",
            "Every call of bisect (all aliases, incl. those made by quadratic_cvar, HedgeLoss.cash and implied_volatility) is judged on the real function: result inside the "
            "bracket, a root within precision (direction-aware, noise-aware), evaluation count bounded by max_iter, RuntimeError only when precision is unreachable; analytic "
            "monotone families are compared with their closed-form inverse, exact iteration budgets on dyadic brackets must return / raise as documented, implied volatility is round-tripped for the four modules (also with a caller-chosen bracket, and with arguments omitted on derivative-backed modules vs given explicitly). Calls whose function is not elementwise are outside the domain. One known finding (python-float brackets searched in float32).", "4 C19 / 8.3")
T["C02"] = ("information-flow sanitizer: NaN/scale/resample poisoning of future columns of every buffer, bit-identical prefix oracle",
            "For randomised hedging pipelines (all stock models, derivative types, hedge lists, built-in and user models, both evaluation branches, grad on/off) and for every "
            "registered feature, every buffer is poisoned at columns > t and the real computation repeated; hedge and feature prefixes must be bit-identical and the last "
            "reported position must equal the previous one.", "4 C02")
T["C03"] = ("differential monitor (single step vs all steps, vectorised vs stepwise branch) + forward-hook taps on the model's inputs/outputs",
            "Every feature at every step is compared with the column of its all-steps evaluation; the same model is run through both branches of compute_hedge; "
            "pre/forward hooks on the model check that the prev_hedge entries at step i are bit-identical to the output of step i-1 and zeros (one per instrument) at step 0, "
            "also on repeated calls of one hedger.", "4 C03")
T["C11"] = ("postcondition contracts on every generate_* return and on simulate() of every primary (old-buffer identity snapshot at entry)",
            "Every generator call (all aliases) and every primary simulate() in shape / dtype (incl. half precisions and both global defaults) / initial-state / parameter-regime "
            "sweeps and re-simulation histories is judged: shape, first column = requested or default initial state, finiteness, positivity (zero only as underflow), variance >= 0, "
            "volatility = sqrt(variance), dtype, equal buffer shapes, documented key set, no surviving old tensor. Three known findings.", "4 C11")
T["C17"] = ("reference-model monitor: abstract dtype state machine stepped beside the real instrument, exhaustive operation sequences to bounded depth",
            "All sequences of length <= 2 (quick) / 3 (thorough) over 17 cast (incl. alias spellings) / simulate / register_buffer (float, integer, second name of a held series) / default-dtype / rejected-int operations are enumerated for each of "
            "8 primaries (two constructions) and 4 derivative wrappers (one on two underliers), plus random sequences of length 4-10; after every operation declared dtype and every buffer dtype must "
            "agree with the reference state machine, simulations must be produced in the declared dtype, and derived quantities (payoff, features, listed price, hedges of cast and never-cast hedgers, P&L, losses and cash amounts of four criteria incl. half precisions, prices) must carry it.", "4 C17 / appendix B / 8.3")
T["C16"] = ("tensor write-sanitizer (identity + autograd version counter + byte hash) on all instrument buffers and functional arguments; fresh-clone differential over operation sequences",
            "Every public computation (payoffs, every feature for one step and all steps, listed prices, BS modules, autogreek, criteria, hedger methods, every public function of "
            "pfhedge.nn.functional) runs under a sanitizer that re-checks every buffer of every live primary and every tensor argument at its exit; random interleavings of simulate / "
            "compute_* / price / fit / to() over several derivatives on one hedger are compared bit for bit with a fresh hedger built from never-used feature copies holding the current parameters (also with two hedgers on one feature list, kept bindings, delist/relist); generic drivers compare same-object arguments with equal copies, objects whose public parameters were reassigned with freshly constructed ones, and a module's result on a second input with a fresh module's.", "4 C16 / 8.3")
T["C06"] = ("certainty-equivalence contract on every HedgeLoss.cash (subclass tree) + tap-based contract on Hedger.price",
            "Every cash() call (closed forms and the default search, incl. user subclasses) is judged: loss(constant sample at cash) = loss(sample) within search precision x local "
            "slope, min <= cash <= max, cash <= mean for risk-averse criteria, quadratic CVaR cash = -risk; Hedger.price is judged against -cash(portfolio, payoff) recomputed from the "
            "tensors tapped inside the call (n_times simulations), payoff-shift equivariance and entropic price = loss under a re-seeded RNG. Two known findings (default search).", "4 C06")
T["C14"] = ("finite-difference oracle on the real loss-through-hedger scalar (under autograd anomaly detection) + graph-presence monitor",
            "For frozen simulated buffers the autograd gradient of criterion(compute_portfolio, payoff) with respect to every model parameter is compared with Richardson central "
            "differences of the same scalar on the same paths, over smooth models (incl. output activations that save their output), feature sets with/without prev_hedge, "
            "costs, hedge lists, all criteria (incl. quadratic CVaR in the concentrated-P&L regime), both branches and train/eval mode; price() and compute_loss(enable_grad=False) "
            "must carry no graph.", "4 C14")
T["C15"] = ("trace monitor (optimizer step hooks, zero_grad wrapper, simulate tap, criterion hooks, parameter version counters) checked by an automaton + reference training loop",
            "Every fit() call in a sweep over epochs (incl. 0), batch sizes, n_times, validation on/off, optimiser classes and instances, lazy / materialised / dropout models, "
            "hedge lists, initial states and stale gradients yields an event trace that must be accepted by the protocol automaton (train mode, zero_grad, simulate(n, s), "
            "criterion under grad, backward, exactly one step changing parameters, n_times validation passes without grad in eval mode), and the parameters and history must be "
            "bit-identical to an explicit public-API loop under the same seed.", "4 C15 / appendix C")
T["C10"] = ("pathwise exact-solution monitor with a recording engine + streaming large-sample moment monitors with two-stage z-tests",
            "Brownian / geometric Brownian paths (and Merton / Kou at zero intensity) are compared step by step with the exact SDE solution built from the normals a recording engine "
            "handed out; for every model, through generators and instruments, means and variances (of the value or its logarithm) at three time indices over 1e5-4e6 paths are compared "
            "with closed-form moments for parameter configurations away from the defaults (both CIR QE branches and the band around the switch, Kou with p_up != 0.5, Vasicek from "
            "several starting points, rough Bergomi at 1y and other horizons). Statistical: resolution ~0.3% (quick) / 0.1% (thorough). Two known findings.", "4 C10")
NA = {}

def main():
    props = [json.loads(l) for l in open(os.path.join(ROOT, "properties.jsonl"))]
    checks, na = [], []
    for p in props:
        pid = p["id"]
        have = os.path.exists(os.path.join(ROOT, "pfv", "props", pid.lower() + ".py"))
        if pid in T and have:
            tech, text, ref = T[pid]
            checks.append({
                "property_id": pid,
                "quick_cmd": f"bin/check {pid} quick",
                "thorough_cmd": f"bin/check {pid} thorough",
                "evidence_file": f"evidence/{pid}.json",
                "replay_cmd_template": f"bin/check {pid} --replay {{path}}",
                "engine": "pfv",
                "level_claimed": {"category": "exploration", "text": text, "design_ref": "DESIGN.md section " + ref},
                "level_note": "trusted base: CPython 3.12, PyTorch CPU kernels, fractions/mpmath, the oracle code under pfv/; "
                              "CPU only; verdict = held on the executions observed",
                "technique": "runtime monitoring: " + tech,
            })
        else:
            na.append({"property_id": pid, "reason": NA.get(pid, "check not built yet in this revision of /verif (planned, see DESIGN.md section 4); not claimed")})
    m = {
        "version": 1,
        "setup_cmd": "bin/setup",
        "hooks": {
            "guard": "PFHEDGE_VERIF",
            "enable": "no source hooks: all monitors are attached from the harness process by wrapping (pfv/contracts.py); bin/check sets PFHEDGE_VERIF=1 for uniformity",
            "baseline_off_cmd": "cd /repo && /venv/bin/python -m pytest -ra -q -p no:cacheprovider --timeout=900 --continue-on-collection-errors",
            "source_commits": [],
            "add_only": True,
        },
        "engines": [{"name": "pfv", "path": "pfv/", "serves_properties": [c["property_id"] for c in checks],
                     "kind_free_text": "python runtime-monitoring harness: alias-complete contracts, exact/mpmath oracles, seeded hostile workloads, sharded subprocess runner"}],
        "checks": checks,
        "not_applicable": na,
        "notes": "See DESIGN.md. KNOWN_FINDINGS.txt lists genuine defects (known:) and repaired ones (fixed:).",
    }
    json.dump(m, open(os.path.join(ROOT, "MANIFEST.json"), "w"), indent=1)
    print("claimed", len(checks), "not claimed", len(na))

main()
