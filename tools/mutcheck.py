#!/usr/bin/env python3
"""Apply a change to a scratch worktree of /repo and run checks against it (PFV_REPO), then remove it.

usage: mutcheck.py [--tier quick] [--suite] IDS  (--patch FILE | --sub FILE OLD NEW [--sub ...])
IDS is a comma separated list of property ids.  Exit 0 if every listed check reported a VIOLATION.
"""
import argparse
import os
import shutil
import subprocess
import sys
import tempfile

ap = argparse.ArgumentParser()
ap.add_argument("ids")
ap.add_argument("--tier", default="quick")
ap.add_argument("--patch")
ap.add_argument("--sub", nargs=3, action="append", default=[])
ap.add_argument("--suite", action="store_true")
ap.add_argument("--seed", default="0")
a = ap.parse_args()

wt = tempfile.mkdtemp(prefix="pfvmut-", dir="/tmp")
os.rmdir(wt)
subprocess.run(["git", "-C", "/repo", "worktree", "add", "-q", "--detach", wt, "HEAD"], check=True)
rc_all = 0
try:
    if a.patch:
        subprocess.run(["git", "-C", wt, "apply", os.path.abspath(a.patch)], check=True)
    for f, old, new in a.sub:
        p = os.path.join(wt, f)
        s = open(p).read()
        old = old.encode().decode("unicode_escape")
        new = new.encode().decode("unicode_escape")
        if s.count(old) != 1:
            print(f"--sub: {old!r} occurs {s.count(old)} times in {f}")
            sys.exit(3)
        open(p, "w").write(s.replace(old, new))
    if a.suite:
        r = subprocess.run(["python3", "/verif/tools/suite.py", wt], capture_output=True, text=True)
        print("suite:", r.stdout.strip().splitlines()[0] if r.stdout else r.stderr[-300:])
    env = dict(os.environ, PFV_REPO=wt, VERIF_SEED=a.seed)
    for pid in a.ids.split(","):
        r = subprocess.run(["/verif/bin/check", pid, a.tier], env=env, capture_output=True, text=True)
        lines = [l for l in r.stdout.splitlines() if l.startswith(("VIOLATION", "  monitor", "INCONCLUSIVE", "[", "KNOWN"))]
        print(f"== {pid}: rc={r.returncode}")
        for l in lines[:8]:
            print("   ", l[:260])
        if r.returncode not in (0, 1, 2):
            print(r.stdout[-500:], r.stderr[-1500:])
        if r.returncode != 1:
            rc_all = 1
finally:
    subprocess.run(["git", "-C", "/repo", "worktree", "remove", "--force", wt])
    shutil.rmtree(wt, ignore_errors=True)
sys.exit(rc_all)
