#!/bin/sh
# Confirm every seeded change (agents' A/B seeds and re-introduced repaired defects) against the current /repo HEAD and run our checks on it.
OUT=/tmp/w/campaign.log; : > $OUT
for id in C01 C02 C03 C04 C05 C06 C07 C08 C09 C10 C11 C12 C13 C14 C15 C16 C17 C18 C19 C20; do
  extra=""
  case $id in C04) extra=",C05";; C16) extra=",C03";; esac
  python3 /verif/tools/seedcheck.py $id /tmp/seedout/$id --checks $id$extra >> $OUT 2>&1
done
for r in C08 C11 C16 C20 C18a C18b C14 C15; do
  pid=$(echo $r | cut -c1-3)
  mkdir -p /tmp/seedout/R$r && cp /tmp/seedout/REFIX/$r.diff /tmp/seedout/R$r/A.diff && cp /tmp/seedout/REFIX/demo_$r.py /tmp/seedout/R$r/demo_A.py
  echo "re-introduces the defect repaired by the fix: commit for $pid ($r)" > /tmp/seedout/R$r/notes.md
  python3 /verif/tools/seedcheck.py REFIX-$r /tmp/seedout/R$r --only A --checks $pid >> $OUT 2>&1
done
echo DONE >> $OUT
