#!/bin/sh
# Round-2 seeds (agents told which ideas were already used): confirm with the full suite and run our checks.
OUT=/tmp/w/campaign2.log; : > $OUT
for id in "$@"; do
  extra=""
  case $id in C04) extra=",C05";; C16) extra=",C17";; C02) extra=",C03";; esac
  python3 /verif/tools/seedcheck.py $id /tmp/seedout2/$id --suffix 2 --checks $id$extra >> $OUT 2>&1
done
echo DONE >> $OUT
