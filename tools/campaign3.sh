#!/bin/sh
# Round-3 seeds (agents told every idea used in rounds 1-2): confirm with the full suite and run our checks.
OUT=/tmp/w/campaign3.log; : > $OUT
for id in "$@"; do
  extra=""
  case $id in C02) extra=",C03,C16";; C11) extra=",C13";; C14) extra=",C15";; C06) extra=",C16";; esac
  python3 /verif/tools/seedcheck.py $id /tmp/seedout3/$id --suffix 3 --checks $id$extra >> $OUT 2>&1
done
echo DONE >> $OUT
