#!/usr/bin/env python3
"""Print the markdown table of seeded changes (for DESIGN.md section 10) from seeded/*/meta.json."""
import glob
import json
import os
import re

rows = []
for d in sorted(glob.glob("/verif/seeded/*")):
    mp = os.path.join(d, "meta.json")
    if not os.path.exists(mp):
        continue
    m = json.load(open(mp))
    patch = open(os.path.join(d, "patch.diff")).read()
    files = sorted(set(re.findall(r"^\+\+\+ b/(\S+)", patch, flags=re.M)))
    caught = []
    for c, v in m.get("checks", {}).items():
        mons = sorted({re.search(r"monitor=(\S+)", l).group(1) for l in v["lines"] if "monitor=" in l})
        caught.append(f"{c}: {'**caught** (' + ', '.join(mons) + ')' if v['rc'] == 1 else ('MISSED' if v['rc'] == 0 else 'inconclusive')}")
    rows.append((os.path.basename(d), m.get("property"), m.get("origin", "")[:14], ", ".join(f.replace("pfhedge/", "") for f in files), m.get("suite", "")[:40], "; ".join(caught)))
print("| seed | property | origin | files | suite with change | our checks (quick tier) |")
print("|---|---|---|---|---|---|")
for r in rows:
    print("| " + " | ".join(str(x) for x in r) + " |")
print(f"\n{len(rows)} seeded changes; caught {sum('caught' in r[5] for r in rows)}, missed {sum('MISSED' in r[5] and 'caught' not in r[5] for r in rows)}")
