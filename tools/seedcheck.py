#!/usr/bin/env python3
"""Confirm a seeded change (patch + demo) in a scratch worktree and run our checks against it.

usage: seedcheck.py <PID> <seed_dir> [--no-suite] [--checks C01,C02] [--tier quick]
Writes /verif/seeded/<PID>-<A|B>/{patch.diff,demo.py,meta.json}.
"""
import argparse
import json
import os
import shutil
import subprocess
import sys
import tempfile

ap = argparse.ArgumentParser()
ap.add_argument("pid")
ap.add_argument("dir")
ap.add_argument("--no-suite", action="store_true")
ap.add_argument("--checks")
ap.add_argument("--tier", default="quick")
ap.add_argument("--only")
ap.add_argument("--suffix", default="")
a = ap.parse_args()
PY = "/venv/bin/python"


def sh(cmd, **kw):
    return subprocess.run(cmd, capture_output=True, text=True, **kw)


def run_demo(tree, demo):
    env = dict(os.environ, PYTHONPATH=tree, PYTHONDONTWRITEBYTECODE="1", PYTHONWARNINGS="ignore")
    r = sh([PY, demo, tree], cwd=tree, env=env, timeout=900)
    return r.returncode, (r.stdout + r.stderr)[-600:]


for tag in ("A", "B"):
    if a.only and tag != a.only:
        continue
    patch = os.path.join(a.dir, f"{tag}.diff")
    demo = os.path.join(a.dir, f"demo_{tag}.py")
    if not (os.path.exists(patch) and os.path.exists(demo)):
        print(f"{a.pid}-{tag}: missing files")
        continue
    wt = tempfile.mkdtemp(prefix="pfvseed-", dir="/tmp")
    os.rmdir(wt)
    sh(["git", "-C", "/repo", "worktree", "add", "-q", "--detach", wt, "HEAD"])
    meta = {"property": a.pid.replace("REFIX-", "")[:3], "origin": ("re-introduction of a repaired defect" if a.pid.startswith("REFIX") else
                                                                  "independent sub-agent given only the property text"), "variant": tag, "base_commit": sh(["git", "-C", "/repo", "rev-parse", "HEAD"]).stdout.strip()}
    try:
        os.makedirs(os.path.join(wt, "_seed"), exist_ok=True)
        d = os.path.join(wt, "_seed", "demo.py")
        shutil.copy(demo, d)
        rc0, out0 = run_demo(wt, d)
        ap_ = sh(["git", "-C", wt, "apply", patch])
        if ap_.returncode != 0:
            print(f"{a.pid}-{tag}: patch does not apply: {ap_.stderr[-300:]}")
            continue
        rc1, out1 = run_demo(wt, d)
        meta["demo_pristine_rc"], meta["demo_patched_rc"] = rc0, rc1
        meta["demo_patched_tail"] = out1[-400:]
        if not a.no_suite:
            r = sh(["python3", "/verif/tools/suite.py", wt])
            meta["suite"] = r.stdout.strip().splitlines()[0] if r.stdout.strip() else r.stderr[-200:]
        checks = (a.checks or a.pid).split(",")
        meta["checks"] = {}
        for c in checks:
            env = dict(os.environ, PFV_REPO=wt, VERIF_SEED="0")
            r = sh(["/verif/bin/check", c, a.tier], env=env)
            lines = [l for l in r.stdout.splitlines() if l.startswith(("VIOLATION", "  monitor", "INCONCLUSIVE"))]
            meta["checks"][c] = {"tier": a.tier, "rc": r.returncode, "lines": [l[:300] for l in lines[:6]]}
        meta["ran"] = [f"git -C /repo worktree add --detach <scratch> HEAD", f"demo on pristine scratch tree (exit {rc0}), git apply patch.diff, demo again (exit {rc1})",
                       "python3 tools/suite.py <scratch>  (full test suite, compared with BASELINE stable_pass)" if not a.no_suite else "suite not re-run in this pass",
                       *[f"PFV_REPO=<scratch> bin/check {c} {a.tier}" for c in checks], "git worktree remove --force <scratch>"]
        notes = os.path.join(a.dir, "notes.md")
        meta["needs_to_manifest_and_notes"] = open(notes).read()[:3500] if os.path.exists(notes) else ""
        prev = os.path.join("/verif/seeded", f"{a.pid}-{tag}{a.suffix}", "meta.json")
        if a.no_suite and os.path.exists(prev):
            try:
                pm = json.load(open(prev))
                if pm.get("suite") and pm.get("base_commit") == meta["base_commit"]:
                    meta["suite"] = pm["suite"]  # confirmed earlier against the same base commit
            except Exception:
                pass
        confirmed = rc0 == 0 and rc1 != 0 and ("missing_from_stable 0" in meta.get("suite", "missing_from_stable 0"))
        meta["confirmed"] = confirmed
        out = os.path.join("/verif/seeded", f"{a.pid}-{tag}{a.suffix}")
        if confirmed:
            os.makedirs(out, exist_ok=True)
            shutil.copy(patch, os.path.join(out, "patch.diff"))
            shutil.copy(demo, os.path.join(out, "demo.py"))
            json.dump(meta, open(os.path.join(out, "meta.json"), "w"), indent=1)
        print(f"{a.pid}-{tag}{a.suffix}: confirmed={confirmed} demo {rc0}->{rc1} suite={meta.get('suite','skipped')!r} "
              + " ".join(f"{c}:rc={v['rc']}" for c, v in meta["checks"].items()))
        for c, v in meta["checks"].items():
            for l in v["lines"][:4]:
                print("     ", l[:220])
    finally:
        sh(["git", "-C", "/repo", "worktree", "remove", "--force", wt])
        shutil.rmtree(wt, ignore_errors=True)
