#!/bin/sh
# Re-run the current checks (quick tier) against every seeded change already confirmed with the suite (rounds 1-7 and the re-introduced
# defects); the earlier suite confirmation is kept in meta.json (--no-suite). Needs the seed sources under /tmp/seedout{,2,...,7}.
OUT=${RECHECK_LOG:-/tmp/w/recheck.log}; : > $OUT
for id in ${RECHECK_IDS:-C01 C02 C03 C04 C05 C06 C07 C08 C09 C10 C11 C12 C13 C14 C15 C16 C17 C18 C19 C20}; do
  e1=""; e2=""; e3=""
  case $id in C04) e1=",C05"; e2=",C05";; C16) e1=",C03"; e2=",C17";; C02) e2=",C03"; e3=",C03,C16";; C11) e3=",C13";; C14) e3=",C15";; C06) e3=",C16";; esac
  python3 /verif/tools/seedcheck.py $id /tmp/seedout/$id --no-suite --checks $id$e1 >> $OUT 2>&1
  python3 /verif/tools/seedcheck.py $id /tmp/seedout2/$id --no-suite --suffix 2 --checks $id$e2 >> $OUT 2>&1
  python3 /verif/tools/seedcheck.py $id /tmp/seedout3/$id --no-suite --suffix 3 --checks $id$e3 >> $OUT 2>&1
  for r in 4 5 6 7; do
    python3 /verif/tools/seedcheck.py $id /tmp/seedout$r/$id --no-suite --suffix $r --checks $(cat /tmp/seedout$r/$id/.checks 2>/dev/null || echo $id) >> $OUT 2>&1
  done
done
for r in ${RECHECK_REFIX-C08 C08b C11 C16 C20 C18a C18b C14 C15}; do
  pid=$(echo $r | cut -c1-3)
  python3 /verif/tools/seedcheck.py REFIX-$r /tmp/seedout/R$r --only A --no-suite --checks $pid >> $OUT 2>&1
done
echo DONE >> $OUT
