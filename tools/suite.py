#!/usr/bin/env python3
"""Run repo test suite (xdist) in given repo dir and compare with BASELINE stable_pass."""
import json,subprocess,sys,os,xml.etree.ElementTree as ET,tempfile
repo=sys.argv[1] if len(sys.argv)>1 else '/repo'
base=json.load(open('/root/.vp/BASELINE.json'))
stable=set(base['stable_pass'])
out=tempfile.mktemp(suffix='.xml')
env=dict(os.environ); env['PYTHONPATH']=repo; env['PYTHONDONTWRITEBYTECODE']='1'
env.pop('PFHEDGE_VERIF',None)
r=subprocess.run(['/venv/bin/python','-m','pytest','-q','-p','no:cacheprovider','--timeout=900','--continue-on-collection-errors','-n','16','--junitxml',out],cwd=repo,env=env,capture_output=True,text=True)
passed=set()
for tc in ET.parse(out).getroot().iter('testcase'):
    bad=[c.tag for c in tc if c.tag in('failure','error','skipped')]
    if not bad: passed.add(f"{tc.get('classname')}::{tc.get('name')}")
os.unlink(out)
missing=stable-passed
print("stable",len(stable),"passed",len(passed),"missing_from_stable",len(missing))
for m in sorted(missing)[:30]: print("  LOST",m)
sys.exit(1 if missing else 0)
